#!/usr/bin/env python3
# rewrites section 10.5 of DESIGN.md from /verif/seeded/*/meta.json
import json,glob,re
rows=[]
for f in sorted(glob.glob('/verif/seeded/*/meta.json')):
    m=json.load(open(f))
    caught='; '.join(f"**{k}**: `{v}`" if len(v)<140 else f"**{k}**: {v}" for k,v in m['caught_by'].items())
    extra=(' *Machinery strengthened:* '+m['machinery_strengthened']) if 'machinery_strengthened' in m else ''
    if 'not_reported' in m:
        caught='**not reported**: '+m['not_reported']
    if 'obsolete' in m:
        extra+=' *No longer a break:* '+m['obsolete']
    rows.append(f"| {m['seed_id']} | {m['breaks_property']} | {m['change']} | {m['needs_to_manifest']} | {caught}.{extra} |")
txt='''### 10.5 Seeded breaking changes and which check catches them

Each change below was written by a fresh sub-agent that saw only the text of one property and a scratch worktree of
/repo (nothing from /verif). Every one compiles with and without the hook feature, leaves the pinned suite at 224
passed, and comes with a demonstration (`seeded/<id>/demo_break.rs`) that passes on the unchanged code and fails with
the change; all of that was re-confirmed by hand (`seed_demo.sh`), then the stored patch was applied to /repo, the checks
were run (`seed_check.sh`) and /repo was restored. "quick"/"thorough" is the first tier that reports the change.

| seed | breaks | change | what it needs to manifest | reported by |
|---|---|---|---|---|
'''+'\n'.join(rows)+'\n'
s=open('/verif/DESIGN.md').read()
i=s.index('### 10.5 Seeded breaking changes')
s=s[:i]+txt
open('/verif/DESIGN.md','w').write(s)
print(len(rows),'rows')
