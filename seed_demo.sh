#!/bin/bash
# confirm a seeded change in its worktree: tests pass with it, demo fails with it and passes without it
id=$1; wt=${2:-/tmp/wt-$id}; out=/verif/seeded/$id; mkdir -p $out
export CARGO_NET_OFFLINE=true
git -C $wt diff -- src > $out/patch.diff; cp $wt/examples/demo_break.rs $out/demo_break.rs
echo "patch lines: $(wc -l < $out/patch.diff) ; files: $(git -C $wt diff --stat -- src | tail -1)"
(cd $wt && cargo build --offline --features rivia_verif 2>&1 | tail -1)
(cd $wt && cargo nextest run --offline --no-fail-fast --test-threads 8 2>&1 | grep -E "Summary" | head -2)
(cd $wt && timeout 600 cargo run --offline --example demo_break >/tmp/demo_with_$id.txt 2>&1; echo "WITH change: exit=$? $(grep -E 'PASS|panicked|FAIL' /tmp/demo_with_$id.txt | head -2 | tr '\n' ' ')")
(cd $wt && git checkout -- src && timeout 600 cargo run --offline --example demo_break >/tmp/demo_without_$id.txt 2>&1; echo "WITHOUT change: exit=$? $(grep -E 'PASS|panicked|FAIL' /tmp/demo_without_$id.txt | head -2| tr '\n' ' ')"; git apply $out/patch.diff)
