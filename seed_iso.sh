#!/bin/bash
# Triage helper: run checks against a stored seeded change WITHOUT touching /repo, so that it can be used while a
# background run is reading /repo. A scratch worktree of /repo (HEAD + the patch) and a scratch copy of the harness
# that points at it are made under /tmp/iso-<id> and removed afterwards. The confirmation that counts is still
# seed_check.sh / seed_all.sh (patch applied to /repo itself).
#   ./seed_iso.sh <seed id> <check ids...>      (quick tier only unless TIERS="quick thorough")
id=$1; shift; out=/verif/seeded/$id; iso=/tmp/iso-$id
rm -rf $iso; mkdir -p $iso
git -C /repo worktree add -q --detach $iso/repo HEAD || exit 2
# (id _none: the unchanged tree, for checking a harness edit while /repo is in use)
if [ "$id" != "_none" ]; then
git -C $iso/repo apply $out/patch.diff || { echo "patch does not apply"; git -C /repo worktree remove --force $iso/repo; rm -rf $iso; exit 2; }
fi
mkdir -p $iso/verif
rsync -a --exclude target --exclude runs --exclude replays --exclude evidence --exclude seeded --exclude .git /verif/ $iso/verif/
sed -i "s|path = \"/repo\"|path = \"$iso/repo\"|" $iso/verif/harness/Cargo.toml
# reuse compiled dependencies: start from a copy of the built target dir when there is one
if [ -d /verif/harness/target ]; then cp -a /verif/harness/target $iso/verif/harness/target 2>/dev/null; fi
for c in "$@"; do
  for tier in ${TIERS:-quick}; do
    res=$(cd $iso/verif && timeout 3600 ./check $c $tier 2>&1 | grep -E "^(VIOLATION|HELD|HARNESS-ERROR|INCONCLUSIVE)" | head -3 | cut -c1-230)
    echo "[$id: $c $tier] $res"
    if echo "$res" | grep -q VIOLATION; then break; fi
  done
done
git -C /repo worktree remove --force $iso/repo; git -C /repo worktree prune
rm -rf $iso
