#!/bin/bash
# MANIFEST.setup_cmd: build the harness (offline) against /repo's current tree
set -eu
cd "$(dirname "$0")"
export CARGO_NET_OFFLINE=true
mkdir -p runs evidence replays
cp /repo/Cargo.lock harness/Cargo.lock
(cd harness && cargo build --offline --profile verif 2>&1 | tail -n 3)
(cd harness && cargo build --offline --profile verifwrap 2>&1 | tail -n 3)
# warm the Miri build of the C04 executor (non fatal: the C04 check builds it itself when needed)
(cd harness && CARGO_TARGET_DIR=$(pwd)/target/miri MIRIFLAGS="-Zmiri-disable-isolation" timeout 600 cargo +nightly miri run --offline --bin miri_c04 --quiet >/dev/null 2>&1 || true)
test -x harness/target/verif/rivia-verif
echo "setup ok"
