#!/usr/bin/env python3
# compact view of replay witnesses: ./triage.py C01 [substring]
import json,sys,glob
prop=sys.argv[1]; sub=sys.argv[2] if len(sys.argv)>2 else ''
for f in sorted(glob.glob(f'/verif/replays/{prop}/*.json')):
    d=json.load(open(f))
    if sub not in d['signature']: continue
    w=d['witness']
    print('##',d['signature'],'x',d['count'])
    if isinstance(w,dict):
        for k,v in w.items():
            if k=='pre_state': print('   pre:',v.get('cwd'),(' | '.join(v.get('nodes',[])))[:700])
            elif k=='history': print('   hist:',' ; '.join(v[-6:]))
            else: print('  ',k+':',json.dumps(v,ensure_ascii=False)[:300])
    else: print('  ',w)
