#!/bin/bash
# Regression over every stored seeded change, PARALLEL and without touching /repo: each one runs through seed_iso.sh
# (scratch worktree of /repo + scratch copy of the harness) against the quick tier of the check named in its meta.json.
#   ./seed_all_iso.sh [jobs]        (prints one line per seed; a line with HELD is a seed that is no longer reported)
cd /verif
one() {
  id=$1
  if grep -qE '"(obsolete|not_reported)"' /verif/seeded/$id/meta.json 2>/dev/null; then echo "$id: skipped (no longer a break, or recorded as not reported: see meta.json)"; return; fi
  c=$(python3 - "$id" <<'P' 2>/dev/null
import json,sys,re
m=json.load(open(f'/verif/seeded/{sys.argv[1]}/meta.json'))
cs=[re.match(r'(C\d\d) quick',k).group(1) for k in m['caught_by'] if re.match(r'(C\d\d) quick',k)]
print(cs[0] if cs else sys.argv[1][:3])
P
)
  ./seed_iso.sh $id $c 2>&1 | grep -E "^\[" | head -1 | cut -c1-200
}
export -f one
ls seeded | xargs -P ${1:-5} -I{} bash -c 'one {}'
