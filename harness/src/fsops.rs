// Sandbox directories and (later) call alphabet / executors shared by the filesystem properties
use std::sync::atomic::{AtomicU64, Ordering};

static SB_COUNTER: AtomicU64 = AtomicU64::new(0);

pub fn tmp_root() -> String {
    if let Ok(t) = std::env::var("VERIF_TMP") {
        if !t.is_empty() && std::fs::create_dir_all(&t).is_ok() {
            return t;
        }
    }
    if std::fs::metadata("/dev/shm").map(|m| m.is_dir()).unwrap_or(false) {
        let probe = format!("/dev/shm/.rv-probe-{}", std::process::id());
        if std::fs::create_dir(&probe).is_ok() {
            let _ = std::fs::remove_dir(&probe);
            return "/dev/shm".to_string();
        }
    }
    std::env::temp_dir().to_str().unwrap().to_string()
}

/// A unique directory removed on drop
pub struct Sandbox {
    pub path: String,
}
impl Sandbox {
    pub fn new(tag: &str) -> Sandbox {
        let n = SB_COUNTER.fetch_add(1, Ordering::SeqCst);
        let path = format!("{}/rv-{}-{}-{}", tmp_root(), tag, std::process::id(), n);
        let _ = std::fs::remove_dir_all(&path);
        std::fs::create_dir_all(&path).expect("create sandbox");
        // canonical form so that cwd based comparisons work
        let path = std::fs::canonicalize(&path).unwrap().to_str().unwrap().to_string();
        Sandbox { path }
    }
}
impl Drop for Sandbox {
    fn drop(&mut self) {
        // make everything removable again
        let _ = std::process::Command::new("chmod").args(["-R", "u+rwx", &self.path]).output();
        let _ = std::fs::remove_dir_all(&self.path);
    }
}
