// Sandbox directories and (later) call alphabet / executors shared by the filesystem properties
use std::sync::atomic::{AtomicU64, Ordering};

static SB_COUNTER: AtomicU64 = AtomicU64::new(0);

pub fn tmp_root() -> String {
    if let Ok(t) = std::env::var("VERIF_TMP") {
        if !t.is_empty() && std::fs::create_dir_all(&t).is_ok() {
            return t;
        }
    }
    if std::fs::metadata("/dev/shm").map(|m| m.is_dir()).unwrap_or(false) {
        let probe = format!("/dev/shm/.rv-probe-{}", std::process::id());
        if std::fs::create_dir(&probe).is_ok() {
            let _ = std::fs::remove_dir(&probe);
            return "/dev/shm".to_string();
        }
    }
    std::env::temp_dir().to_str().unwrap().to_string()
}

/// A unique directory removed on drop
pub struct Sandbox {
    pub path: String,
}
impl Sandbox {
    pub fn new(tag: &str) -> Sandbox {
        let n = SB_COUNTER.fetch_add(1, Ordering::SeqCst);
        let path = format!("{}/rv-{}-{}-{}", tmp_root(), tag, std::process::id(), n);
        let _ = std::fs::remove_dir_all(&path);
        std::fs::create_dir_all(&path).expect("create sandbox");
        // canonical form so that cwd based comparisons work
        let path = std::fs::canonicalize(&path).unwrap().to_str().unwrap().to_string();
        Sandbox { path }
    }
}
impl Sandbox {
    /// sandbox whose usable root is one level below the unique directory, so that "../x" stays inside
    pub fn nested(tag: &str) -> (Sandbox, String) {
        let sb = Sandbox::new(tag);
        let r = format!("{}/r", sb.path);
        std::fs::create_dir_all(&r).expect("create nested root");
        (sb, r)
    }
}
/// Irreversibly switch the worker process to an unprivileged user that owns the sandbox
pub fn drop_privileges(sb: &Sandbox, uid: u32, gid: u32) -> bool {
    unsafe {
        if libc::geteuid() != 0 {
            return true;
        }
        let _ = std::process::Command::new("chown").args(["-R", &format!("{}:{}", uid, gid), &sb.path]).output();
        if libc::setgroups(0, std::ptr::null()) != 0 {
            return false;
        }
        if libc::setgid(gid) != 0 || libc::setuid(uid) != 0 {
            return false;
        }
        libc::geteuid() == uid
    }
}
impl Drop for Sandbox {
    fn drop(&mut self) {
        // make everything removable again
        let _ = std::process::Command::new("chmod").args(["-R", "u+rwx", &self.path]).output();
        let _ = std::fs::remove_dir_all(&self.path);
    }
}

// =============================================================================================
// Call alphabet, executor generic over VirtualFileSystem, results, normal-form trees
// =============================================================================================
use std::{
    collections::{BTreeMap, BTreeSet},
    io::{Read, Write},
    path::{Path, PathBuf},
};

use rivia::prelude::*;

use crate::infra::{catch, J};

#[derive(Clone, Debug, PartialEq, Eq, Hash, PartialOrd, Ord)]
pub enum CopyMode {
    None,
    All(u32),
    Dirs(u32),
    Files(u32),
    /// two chmod options called one after the other on the same builder: the later call replaces the earlier
    Then(Box<CopyMode>, Box<CopyMode>),
}
impl CopyMode {
    /// what the builder documents for a sequence of chmod_* calls: the last one counts
    pub fn effective(&self) -> CopyMode {
        match self {
            CopyMode::Then(a, b) => match b.effective() {
                CopyMode::None => a.effective(),
                x => x,
            },
            x => x.clone(),
        }
    }
    fn apply(&self, c: rivia::sys::Copier) -> rivia::sys::Copier {
        match self {
            CopyMode::None => c,
            CopyMode::All(x) => c.chmod_all(*x),
            CopyMode::Dirs(x) => c.chmod_dirs(*x),
            CopyMode::Files(x) => c.chmod_files(*x),
            CopyMode::Then(a, b) => b.apply(a.apply(c)),
        }
    }
}
#[derive(Clone, Debug, PartialEq, Eq, Hash, PartialOrd, Ord)]
pub struct ChmodO {
    pub all: Option<u32>,
    pub dirs: Option<u32>,
    pub files: Option<u32>,
    pub sym: Option<String>,
    pub recurse: Option<bool>,
    pub follow: bool,
}
#[derive(Clone, Debug, PartialEq, Eq, Hash, PartialOrd, Ord)]
pub struct ChownO {
    pub uid: Option<u32>,
    pub gid: Option<u32>,
    pub recurse: Option<bool>,
    pub follow: bool,
}

#[derive(Clone, Debug, PartialEq, Eq, Hash, PartialOrd, Ord)]
pub enum Op {
    MkdirP(String),
    MkdirM(String, u32),
    Mkfile(String),
    MkfileM(String, u32),
    WriteAll(String, Vec<u8>),
    WriteLines(String, Vec<String>),
    AppendAll(String, Vec<u8>),
    AppendLine(String, String),
    AppendLines(String, Vec<String>),
    WriteH(String, Vec<u8>),  // write() handle: write_all + flush + drop
    AppendH(String, Vec<u8>), // append() handle
    ReadAll(String),
    ReadLines(String),
    ReadBytes(String), // read() handle, read_to_end
    Remove(String),
    RemoveAll(String),
    MoveP(String, String),
    Copy(String, String),
    CopyB(String, String, CopyMode, bool),
    Symlink(String, String),
    Readlink(String),
    ReadlinkAbs(String),
    Chmod(String, u32),
    ChmodB(String, ChmodO),
    Chown(String, u32, u32),
    ChownB(String, ChownO),
    SetCwd(String),
    Cwd,
    Root,
    Abs(String),
    Exists(String),
    IsDir(String),
    IsFile(String),
    IsSymlink(String),
    IsSymlinkDir(String),
    IsSymlinkFile(String),
    IsExec(String),
    IsReadonly(String),
    Mode(String),
    Owner(String),
    Uid(String),
    Gid(String),
    Entry(String),
    Paths(String),
    Dirs(String),
    Files(String),
    AllPaths(String),
    AllDirs(String),
    AllFiles(String),
    Entries(String), // default options, result as a sorted multiset of entry views
    ConfigDir(String),
    /// a builder (ChmodB / ChownB / CopyB) that is created with the cwd at .1[0], kept while the cwd moves to .1[1],
    /// executed, and - when there is a .1[2] - executed a second time after the cwd moved there
    Held(Box<Op>, Vec<String>),
}

impl Op {
    pub fn name(&self) -> &'static str {
        use Op::*;
        match self {
            MkdirP(..) => "mkdir_p",
            MkdirM(..) => "mkdir_m",
            Mkfile(..) => "mkfile",
            MkfileM(..) => "mkfile_m",
            WriteAll(..) => "write_all",
            WriteLines(..) => "write_lines",
            AppendAll(..) => "append_all",
            AppendLine(..) => "append_line",
            AppendLines(..) => "append_lines",
            WriteH(..) => "write",
            AppendH(..) => "append",
            ReadAll(..) => "read_all",
            ReadLines(..) => "read_lines",
            ReadBytes(..) => "read",
            Remove(..) => "remove",
            RemoveAll(..) => "remove_all",
            MoveP(..) => "move_p",
            Copy(..) => "copy",
            CopyB(..) => "copy_b",
            Symlink(..) => "symlink",
            Readlink(..) => "readlink",
            ReadlinkAbs(..) => "readlink_abs",
            Chmod(..) => "chmod",
            ChmodB(..) => "chmod_b",
            Chown(..) => "chown",
            ChownB(..) => "chown_b",
            SetCwd(..) => "set_cwd",
            Cwd => "cwd",
            Root => "root",
            Abs(..) => "abs",
            Exists(..) => "exists",
            IsDir(..) => "is_dir",
            IsFile(..) => "is_file",
            IsSymlink(..) => "is_symlink",
            IsSymlinkDir(..) => "is_symlink_dir",
            IsSymlinkFile(..) => "is_symlink_file",
            IsExec(..) => "is_exec",
            IsReadonly(..) => "is_readonly",
            Mode(..) => "mode",
            Owner(..) => "owner",
            Uid(..) => "uid",
            Gid(..) => "gid",
            Entry(..) => "entry",
            Paths(..) => "paths",
            Dirs(..) => "dirs",
            Files(..) => "files",
            AllPaths(..) => "all_paths",
            AllDirs(..) => "all_dirs",
            AllFiles(..) => "all_files",
            Entries(..) => "entries",
            ConfigDir(..) => "config_dir",
            Held(..) => "held_builder",
        }
    }
    /// path arguments in order
    pub fn paths(&self) -> Vec<&str> {
        use Op::*;
        match self {
            MkdirP(p) | MkdirM(p, _) | Mkfile(p) | MkfileM(p, _) | WriteAll(p, _) | WriteLines(p, _) | AppendAll(p, _) | AppendLine(p, _) | AppendLines(p, _)
            | WriteH(p, _) | AppendH(p, _) | ReadAll(p) | ReadLines(p) | ReadBytes(p) | Remove(p) | RemoveAll(p) | Readlink(p) | ReadlinkAbs(p) | Chmod(p, _)
            | ChmodB(p, _) | Chown(p, _, _) | ChownB(p, _) | SetCwd(p) | Abs(p) | Exists(p) | IsDir(p) | IsFile(p) | IsSymlink(p) | IsSymlinkDir(p)
            | IsSymlinkFile(p) | IsExec(p) | IsReadonly(p) | Mode(p) | Owner(p) | Uid(p) | Gid(p) | Entry(p) | Paths(p) | Dirs(p) | Files(p) | AllPaths(p)
            | AllDirs(p) | AllFiles(p) | Entries(p) => vec![p],
            MoveP(a, b) | Copy(a, b) | CopyB(a, b, _, _) | Symlink(a, b) => vec![a, b],
            Cwd | Root | ConfigDir(_) => vec![],
            Held(inner, cwds) => {
                let mut v = inner.paths();
                v.extend(cwds.iter().map(|c| c.as_str()));
                v
            },
        }
    }
    pub fn with_paths(&self, ps: &[String]) -> Op {
        use Op::*;
        let p = || ps[0].clone();
        match self {
            MkdirP(_) => MkdirP(p()),
            MkdirM(_, m) => MkdirM(p(), *m),
            Mkfile(_) => Mkfile(p()),
            MkfileM(_, m) => MkfileM(p(), *m),
            WriteAll(_, d) => WriteAll(p(), d.clone()),
            WriteLines(_, d) => WriteLines(p(), d.clone()),
            AppendAll(_, d) => AppendAll(p(), d.clone()),
            AppendLine(_, d) => AppendLine(p(), d.clone()),
            AppendLines(_, d) => AppendLines(p(), d.clone()),
            WriteH(_, d) => WriteH(p(), d.clone()),
            AppendH(_, d) => AppendH(p(), d.clone()),
            ReadAll(_) => ReadAll(p()),
            ReadLines(_) => ReadLines(p()),
            ReadBytes(_) => ReadBytes(p()),
            Remove(_) => Remove(p()),
            RemoveAll(_) => RemoveAll(p()),
            MoveP(_, _) => MoveP(p(), ps[1].clone()),
            Copy(_, _) => Copy(p(), ps[1].clone()),
            CopyB(_, _, m, f) => CopyB(p(), ps[1].clone(), m.clone(), *f),
            Symlink(_, _) => Symlink(p(), ps[1].clone()),
            Readlink(_) => Readlink(p()),
            ReadlinkAbs(_) => ReadlinkAbs(p()),
            Chmod(_, m) => Chmod(p(), *m),
            ChmodB(_, o) => ChmodB(p(), o.clone()),
            Chown(_, u, g) => Chown(p(), *u, *g),
            ChownB(_, o) => ChownB(p(), o.clone()),
            SetCwd(_) => SetCwd(p()),
            Cwd => Cwd,
            Root => Root,
            Abs(_) => Abs(p()),
            Exists(_) => Exists(p()),
            IsDir(_) => IsDir(p()),
            IsFile(_) => IsFile(p()),
            IsSymlink(_) => IsSymlink(p()),
            IsSymlinkDir(_) => IsSymlinkDir(p()),
            IsSymlinkFile(_) => IsSymlinkFile(p()),
            IsExec(_) => IsExec(p()),
            IsReadonly(_) => IsReadonly(p()),
            Mode(_) => Mode(p()),
            Owner(_) => Owner(p()),
            Uid(_) => Uid(p()),
            Gid(_) => Gid(p()),
            Entry(_) => Entry(p()),
            Paths(_) => Paths(p()),
            Dirs(_) => Dirs(p()),
            Files(_) => Files(p()),
            AllPaths(_) => AllPaths(p()),
            AllDirs(_) => AllDirs(p()),
            AllFiles(_) => AllFiles(p()),
            Entries(_) => Entries(p()),
            ConfigDir(n) => ConfigDir(n.clone()),
            Held(inner, cwds) => {
                let n = inner.paths().len();
                Held(Box::new(inner.with_paths(&ps[..n])), ps[n..n + cwds.len()].to_vec())
            },
        }
    }
    pub fn is_query(&self) -> bool {
        use Op::*;
        matches!(
            self,
            ReadAll(_) | ReadLines(_) | ReadBytes(_) | Readlink(_) | ReadlinkAbs(_) | Cwd | Root | Abs(_) | Exists(_) | IsDir(_) | IsFile(_) | IsSymlink(_)
                | IsSymlinkDir(_) | IsSymlinkFile(_) | IsExec(_) | IsReadonly(_) | Mode(_) | Owner(_) | Uid(_) | Gid(_) | Entry(_) | Paths(_) | Dirs(_) | Files(_)
                | AllPaths(_) | AllDirs(_) | AllFiles(_) | Entries(_) | ConfigDir(_)
        )
    }
    pub fn describe(&self) -> String {
        let s = format!("{:?}", self);
        if s.len() > 300 {
            format!("{}…({} chars)", s.chars().take(300).collect::<String>(), s.len())
        } else {
            s
        }
    }
}

#[derive(Clone, Debug, PartialEq, Eq, PartialOrd, Ord)]
pub struct EntryView {
    pub path: String,
    pub alt: String,
    pub rel: String,
    pub is_dir: bool,
    pub is_file: bool,
    pub is_symlink: bool,
    pub is_symlink_dir: bool,
    pub is_symlink_file: bool,
    pub is_exec: bool,
    pub is_readonly: bool,
    pub following: bool,
    pub mode: u32,
    pub file_name: Option<String>,
}
pub fn ps(p: &Path) -> String {
    p.to_str().unwrap_or("<non-utf8>").to_string()
}
pub fn entry_view<E: Entry>(e: &E) -> EntryView {
    EntryView {
        path: ps(e.path()),
        alt: ps(e.alt()),
        rel: ps(e.rel()),
        is_dir: e.is_dir(),
        is_file: e.is_file(),
        is_symlink: e.is_symlink(),
        is_symlink_dir: e.is_symlink_dir(),
        is_symlink_file: e.is_symlink_file(),
        is_exec: e.is_exec(),
        is_readonly: e.is_readonly(),
        following: e.following(),
        mode: e.mode(),
        file_name: e.file_name().map(|x| x.to_str().unwrap_or("?").to_string()),
    }
}

#[derive(Clone, Debug, PartialEq)]
pub enum Res {
    Unit,
    Path(String),
    Bool(bool),
    Text(String),
    Bytes(Vec<u8>),
    Lines(Vec<String>),
    Paths(Vec<String>),
    Num(u32),
    Pair(u32, u32),
    Entry(EntryView),
    Items(Vec<EntryView>),
    Err(String),
    Panic(String),
}
impl Res {
    pub fn is_err(&self) -> bool {
        matches!(self, Res::Err(_))
    }
    pub fn class(&self) -> String {
        match self {
            Res::Err(k) => format!("Err({})", k),
            Res::Panic(_) => "panic".into(),
            _ => "Ok".into(),
        }
    }
    pub fn short(&self) -> String {
        let s = format!("{:?}", self);
        if s.len() > 400 {
            format!("{}…", s.chars().take(400).collect::<String>())
        } else {
            s
        }
    }
}

pub fn err_kind(e: &RvError) -> String {
    match e {
        RvError::Path(p) => {
            let d = format!("{:?}", p);
            d.split('(').next().unwrap_or("Path").to_string()
        },
        RvError::Io(io) => format!("Io:{:?}", io.kind()),
        RvError::Vfs(v) => {
            let d = format!("{:?}", v);
            d.split('(').next().unwrap_or("Vfs").to_string()
        },
        RvError::Var(_) => "Var".into(),
        RvError::Iter(_) => "Iter".into(),
        RvError::Nix(n) => format!("Nix:{:?}", n),
        RvError::Utf8(_) => "Utf8".into(),
        other => {
            let d = format!("{:?}", other);
            d.split('(').next().unwrap_or("Other").to_string()
        },
    }
}
fn r_unit(r: RvResult<()>) -> Res {
    match r {
        Ok(()) => Res::Unit,
        Err(e) => Res::Err(err_kind(&e)),
    }
}
fn r_path(r: RvResult<PathBuf>) -> Res {
    match r {
        Ok(p) => Res::Path(ps(&p)),
        Err(e) => Res::Err(err_kind(&e)),
    }
}
fn r_paths(r: RvResult<Vec<PathBuf>>) -> Res {
    match r {
        Ok(v) => Res::Paths(v.iter().map(|p| ps(p)).collect()),
        Err(e) => Res::Err(err_kind(&e)),
    }
}

pub fn exec<V: VirtualFileSystem>(v: &V, op: &Op) -> Res {
    match catch(|| exec_inner(v, op)) {
        Ok(r) => r,
        Err(m) => Res::Panic(m),
    }
}

fn exec_inner<V: VirtualFileSystem>(v: &V, op: &Op) -> Res {
    use Op::*;
    match op {
        MkdirP(p) => r_path(v.mkdir_p(p)),
        MkdirM(p, m) => r_path(v.mkdir_m(p, *m)),
        Mkfile(p) => r_path(v.mkfile(p)),
        MkfileM(p, m) => r_path(v.mkfile_m(p, *m)),
        WriteAll(p, d) => r_unit(v.write_all(p, d)),
        WriteLines(p, l) => r_unit(v.write_lines(p, l)),
        AppendAll(p, d) => r_unit(v.append_all(p, d)),
        AppendLine(p, l) => r_unit(v.append_line(p, l)),
        AppendLines(p, l) => r_unit(v.append_lines(p, l)),
        WriteH(p, d) => match v.write(p) {
            Ok(mut h) => {
                if let Err(e) = h.write_all(d) {
                    return Res::Err(format!("Io:{:?}", e.kind()));
                }
                if let Err(e) = h.flush() {
                    return Res::Err(format!("Io:{:?}", e.kind()));
                }
                Res::Unit
            },
            Err(e) => Res::Err(err_kind(&e)),
        },
        AppendH(p, d) => match v.append(p) {
            Ok(mut h) => {
                if let Err(e) = h.write_all(d) {
                    return Res::Err(format!("Io:{:?}", e.kind()));
                }
                if let Err(e) = h.flush() {
                    return Res::Err(format!("Io:{:?}", e.kind()));
                }
                Res::Unit
            },
            Err(e) => Res::Err(err_kind(&e)),
        },
        ReadAll(p) => match v.read_all(p) {
            Ok(s) => Res::Text(s),
            Err(e) => Res::Err(err_kind(&e)),
        },
        ReadLines(p) => match v.read_lines(p) {
            Ok(s) => Res::Lines(s),
            Err(e) => Res::Err(err_kind(&e)),
        },
        ReadBytes(p) => match v.read(p) {
            Ok(mut h) => {
                let mut b = vec![];
                match h.read_to_end(&mut b) {
                    Ok(_) => Res::Bytes(b),
                    Err(e) => Res::Err(format!("Io:{:?}", e.kind())),
                }
            },
            Err(e) => Res::Err(err_kind(&e)),
        },
        Remove(p) => r_unit(v.remove(p)),
        RemoveAll(p) => r_unit(v.remove_all(p)),
        MoveP(a, b) => r_unit(v.move_p(a, b)),
        Copy(a, b) => r_unit(v.copy(a, b)),
        CopyB(a, b, m, f) => match v.copy_b(a, b) {
            Ok(mut c) => {
                c = m.apply(c);
                if *f {
                    c = c.follow(true);
                }
                r_unit(c.exec())
            },
            Err(e) => Res::Err(err_kind(&e)),
        },
        Symlink(l, t) => r_path(v.symlink(l, t)),
        Readlink(p) => r_path(v.readlink(p)),
        ReadlinkAbs(p) => r_path(v.readlink_abs(p)),
        Chmod(p, m) => r_unit(v.chmod(p, *m)),
        ChmodB(p, o) => match v.chmod_b(p) {
            Ok(mut c) => {
                if let Some(x) = o.all {
                    c = c.all(x);
                }
                if let Some(x) = o.dirs {
                    c = c.dirs(x);
                }
                if let Some(x) = o.files {
                    c = c.files(x);
                }
                if let Some(x) = &o.sym {
                    c = c.sym(x);
                }
                match o.recurse {
                    Some(true) => c = c.recurse(),
                    Some(false) => c = c.no_recurse(),
                    None => {},
                }
                if o.follow {
                    c = c.follow();
                }
                r_unit(c.exec())
            },
            Err(e) => Res::Err(err_kind(&e)),
        },
        Chown(p, u, g) => r_unit(v.chown(p, *u, *g)),
        ChownB(p, o) => match v.chown_b(p) {
            Ok(mut c) => {
                if let Some(x) = o.uid {
                    c = c.uid(x);
                }
                if let Some(x) = o.gid {
                    c = c.gid(x);
                }
                if let Some(x) = o.recurse {
                    c = c.recurse(x);
                }
                if o.follow {
                    c = c.follow();
                }
                r_unit(c.exec())
            },
            Err(e) => Res::Err(err_kind(&e)),
        },
        SetCwd(p) => r_path(v.set_cwd(p)),
        Cwd => r_path(v.cwd()),
        Root => Res::Path(ps(&v.root())),
        Abs(p) => r_path(v.abs(p)),
        Exists(p) => Res::Bool(v.exists(p)),
        IsDir(p) => Res::Bool(v.is_dir(p)),
        IsFile(p) => Res::Bool(v.is_file(p)),
        IsSymlink(p) => Res::Bool(v.is_symlink(p)),
        IsSymlinkDir(p) => Res::Bool(v.is_symlink_dir(p)),
        IsSymlinkFile(p) => Res::Bool(v.is_symlink_file(p)),
        IsExec(p) => Res::Bool(v.is_exec(p)),
        IsReadonly(p) => Res::Bool(v.is_readonly(p)),
        Mode(p) => match v.mode(p) {
            Ok(m) => Res::Num(m),
            Err(e) => Res::Err(err_kind(&e)),
        },
        Owner(p) => match v.owner(p) {
            Ok((u, g)) => Res::Pair(u, g),
            Err(e) => Res::Err(err_kind(&e)),
        },
        Uid(p) => match v.uid(p) {
            Ok(m) => Res::Num(m),
            Err(e) => Res::Err(err_kind(&e)),
        },
        Gid(p) => match v.gid(p) {
            Ok(m) => Res::Num(m),
            Err(e) => Res::Err(err_kind(&e)),
        },
        Entry(p) => match v.entry(p) {
            Ok(e) => Res::Entry(entry_view(&e)),
            Err(e) => Res::Err(err_kind(&e)),
        },
        Paths(p) => r_paths(v.paths(p)),
        Dirs(p) => r_paths(v.dirs(p)),
        Files(p) => r_paths(v.files(p)),
        AllPaths(p) => r_paths(v.all_paths(p)),
        AllDirs(p) => r_paths(v.all_dirs(p)),
        AllFiles(p) => r_paths(v.all_files(p)),
        Held(inner, cwds) => {
            enum B {
                Chmod(rivia::sys::Chmod),
                Chown(rivia::sys::Chown),
                Copy(rivia::sys::Copier),
            }
            let _ = v.set_cwd(&cwds[0]);
            let built: Result<B, String> = match &**inner {
                ChmodB(p, o) => v.chmod_b(p).map_err(|e| err_kind(&e)).map(|mut c| {
                    if let Some(x) = o.all {
                        c = c.all(x);
                    }
                    if let Some(x) = o.dirs {
                        c = c.dirs(x);
                    }
                    if let Some(x) = o.files {
                        c = c.files(x);
                    }
                    if let Some(x) = &o.sym {
                        c = c.sym(x);
                    }
                    match o.recurse {
                        Some(true) => c = c.recurse(),
                        Some(false) => c = c.no_recurse(),
                        None => {},
                    }
                    if o.follow {
                        c = c.follow();
                    }
                    B::Chmod(c)
                }),
                ChownB(p, o) => v.chown_b(p).map_err(|e| err_kind(&e)).map(|mut c| {
                    if let Some(x) = o.uid {
                        c = c.uid(x);
                    }
                    if let Some(x) = o.gid {
                        c = c.gid(x);
                    }
                    if let Some(x) = o.recurse {
                        c = c.recurse(x);
                    }
                    if o.follow {
                        c = c.follow();
                    }
                    B::Chown(c)
                }),
                CopyB(a, b, m, f) => v.copy_b(a, b).map_err(|e| err_kind(&e)).map(|c| {
                    let c = m.apply(c);
                    B::Copy(if *f { c.follow(true) } else { c })
                }),
                _ => Err("not-a-builder".into()),
            };
            let mut out = vec![];
            match built {
                Err(k) => out.push(format!("build: Err({})", k)),
                Ok(b) => {
                    out.push("build: Ok".to_string());
                    for c in &cwds[1..] {
                        let _ = v.set_cwd(c);
                        let r = match &b {
                            B::Chmod(x) => x.exec(),
                            B::Chown(x) => x.exec(),
                            B::Copy(x) => x.exec(),
                        };
                        out.push(match r {
                            Ok(()) => "exec: Ok".to_string(),
                            Err(e) => format!("exec: Err({})", err_kind(&e)),
                        });
                    }
                },
            }
            Res::Lines(out)
        },
        ConfigDir(n) => match v.config_dir(n) {
            Some(p) => Res::Path(ps(&p)),
            None => Res::Unit,
        },
        Entries(p) => match v.entries(p) {
            Ok(es) => {
                let mut out = vec![];
                let mut n = 0;
                for e in es {
                    n += 1;
                    if n > 10_000 {
                        return Res::Err("harness:too-many-items".into());
                    }
                    match e {
                        Ok(e) => out.push(entry_view(&e)),
                        Err(e) => return Res::Err(err_kind(&e)),
                    }
                }
                out.sort();
                Res::Items(out)
            },
            Err(e) => Res::Err(err_kind(&e)),
        },
    }
}

// ---------------------------------------------------------------------------------------------
// Normal-form tree (what the model holds and what observers produce)
// ---------------------------------------------------------------------------------------------
#[derive(Clone, Debug, PartialEq, Eq, Hash, PartialOrd, Ord)]
pub enum NKind {
    File(Vec<u8>),
    Dir,
    Link { target: String, dir: bool },
}
#[derive(Clone, Debug, PartialEq, Eq, Hash, PartialOrd, Ord)]
pub struct NNode {
    pub kind: NKind,
    pub mode: u32,
    pub uid: u32,
    pub gid: u32,
}
#[derive(Clone, Debug, PartialEq, Eq, Hash, PartialOrd, Ord)]
pub struct NTree {
    pub cwd: String,
    pub nodes: BTreeMap<String, NNode>,
}
pub fn parent_of(p: &str) -> Option<String> {
    if p == "/" {
        return None;
    }
    match p.rfind('/') {
        Some(0) => Some("/".to_string()),
        Some(i) => Some(p[..i].to_string()),
        None => None,
    }
}
pub fn base_of(p: &str) -> &str {
    match p.rfind('/') {
        Some(i) => &p[i + 1..],
        None => p,
    }
}
pub fn join(d: &str, n: &str) -> String {
    if d == "/" {
        format!("/{}", n)
    } else {
        format!("{}/{}", d, n)
    }
}
pub fn is_under(p: &str, anc: &str) -> bool {
    // strictly below
    if anc == "/" {
        return p != "/";
    }
    p.len() > anc.len() && p.starts_with(anc) && p.as_bytes()[anc.len()] == b'/'
}
impl NTree {
    pub fn fresh() -> NTree {
        let mut nodes = BTreeMap::new();
        nodes.insert("/".to_string(), NNode { kind: NKind::Dir, mode: 0o40755, uid: 1000, gid: 1000 });
        NTree { cwd: "/".into(), nodes }
    }
    pub fn children(&self, d: &str) -> Vec<String> {
        self.nodes.keys().filter(|k| parent_of(k).as_deref() == Some(d)).cloned().collect()
    }
    pub fn subtree(&self, p: &str) -> Vec<String> {
        self.nodes.keys().filter(|k| *k == p || is_under(k, p)).cloned().collect()
    }
    pub fn is_real_dir(&self, p: &str) -> bool {
        matches!(self.nodes.get(p), Some(NNode { kind: NKind::Dir, .. }))
    }
    /// argument class of a clean absolute path in this tree
    pub fn class_of(&self, p: &str) -> &'static str {
        if p == "/" {
            return "root";
        }
        match self.nodes.get(p) {
            Some(n) => match &n.kind {
                NKind::File(_) => "file",
                NKind::Dir => {
                    if self.children(p).is_empty() {
                        "dir-empty"
                    } else {
                        "dir-nonempty"
                    }
                },
                NKind::Link { target, dir } => match self.nodes.get(target) {
                    None => "link→dangling",
                    Some(_) if *dir => "link→dir",
                    Some(_) => "link→file",
                },
            },
            None => match parent_of(p).and_then(|d| self.nodes.get(&d).cloned()) {
                None => "absent/parent-missing",
                Some(n) => match n.kind {
                    NKind::Dir => "absent",
                    NKind::File(_) => "absent/parent-file",
                    NKind::Link { .. } => "absent/parent-link",
                },
            },
        }
    }
    pub fn to_json(&self) -> J {
        J::obj(vec![
            ("cwd", J::s(&self.cwd)),
            (
                "nodes",
                J::Arr(
                    self.nodes
                        .iter()
                        .map(|(k, n)| {
                            J::s(format!(
                                "{} {} mode={:o} owner={}:{}",
                                k,
                                match &n.kind {
                                    NKind::File(d) => format!("file({:?})", String::from_utf8_lossy(&d[..d.len().min(40)])),
                                    NKind::Dir => "dir".to_string(),
                                    NKind::Link { target, dir } => format!("link→{}({})", target, if *dir { "dir" } else { "file" }),
                                },
                                n.mode,
                                n.uid,
                                n.gid
                            ))
                        })
                        .collect(),
                ),
            ),
        ])
    }
    pub fn diff(&self, other: &NTree) -> String {
        let mut out = vec![];
        if self.cwd != other.cwd {
            out.push(format!("cwd {} vs {}", self.cwd, other.cwd));
        }
        let keys: BTreeSet<&String> = self.nodes.keys().chain(other.nodes.keys()).collect();
        for k in keys {
            match (self.nodes.get(k), other.nodes.get(k)) {
                (Some(a), Some(b)) if a == b => {},
                (Some(a), Some(b)) => out.push(format!("{}: {:?} vs {:?}", k, short_node(a), short_node(b))),
                (Some(a), None) => out.push(format!("{}: {:?} vs <absent>", k, short_node(a))),
                (None, Some(b)) => out.push(format!("{}: <absent> vs {:?}", k, short_node(b))),
                _ => {},
            }
            if out.len() > 6 {
                break;
            }
        }
        out.join("; ")
    }
}
fn short_node(n: &NNode) -> String {
    let k = match &n.kind {
        NKind::File(d) => format!("file[{}]{:?}", d.len(), String::from_utf8_lossy(&d[..d.len().min(16)])),
        NKind::Dir => "dir".into(),
        NKind::Link { target, dir } => format!("link→{}({})", target, if *dir { "d" } else { "f" }),
    };
    format!("{} {:o} {}:{}", k, n.mode, n.uid, n.gid)
}

// ---------------------------------------------------------------------------------------------
// Memfs observers: normal form + C03 invariant walker over the hook snapshot
// ---------------------------------------------------------------------------------------------
pub use rivia::sys::verif::Snapshot;

pub fn memfs_ntree(s: &Snapshot) -> NTree {
    let mut nodes = BTreeMap::new();
    let files: BTreeMap<String, &Vec<u8>> = s.files.iter().map(|f| (ps(&f.0), &f.1)).collect();
    for e in &s.entries {
        let key = ps(&e.key);
        let kind = if e.link {
            NKind::Link { target: ps(&e.alt), dir: e.dir }
        } else if e.file {
            NKind::File(files.get(&key).map(|d| (*d).clone()).unwrap_or_default())
        } else {
            NKind::Dir
        };
        nodes.insert(key, NNode { kind, mode: e.mode, uid: e.uid, gid: e.gid });
    }
    NTree { cwd: ps(&s.cwd), nodes }
}

/// The clauses of C03, exactly. Returns (invariant id, detail).
pub fn check_invariants(s: &Snapshot) -> Vec<(&'static str, String)> {
    let mut v = vec![];
    let keys: BTreeMap<String, &rivia::sys::verif::EntrySnapshot> = s.entries.iter().map(|e| (ps(&e.key), e)).collect();
    if s.entries.len() != keys.len() {
        v.push(("I5-duplicate-key", "duplicate keys".to_string()));
    }
    for (k, e) in &keys {
        if k != "/" {
            match parent_of(k) {
                None => v.push(("I1-key-not-absolute", k.clone())),
                Some(d) => match keys.get(&d) {
                    None => v.push(("I1-parent-missing", format!("{} has no parent entry {}", k, d))),
                    Some(pe) => {
                        if !pe.dir || pe.link {
                            v.push(("I1-parent-not-real-dir", format!("{} parent {} dir={} link={}", k, d, pe.dir, pe.link)));
                        }
                        let listed = pe.children.as_ref().map(|c| c.iter().any(|n| n == base_of(k))).unwrap_or(false);
                        if !listed {
                            v.push(("I1-parent-does-not-list", format!("{} is not listed by {}", k, d)));
                        }
                    },
                },
            }
        }
        if let Some(ch) = &e.children {
            for n in ch {
                let c = join(k, n);
                if !keys.contains_key(&c) {
                    v.push(("I2-listed-child-missing", format!("{} lists {} which does not exist", k, n)));
                }
            }
        }
        if ps(&e.path) != *k {
            v.push(("I3-entry-path-differs-from-key", format!("key {} entry.path {}", k, ps(&e.path))));
        }
    }
    let fkeys: BTreeSet<String> = s.files.iter().map(|f| ps(&f.0)).collect();
    let want: BTreeSet<String> = keys.iter().filter(|(_, e)| e.file && !e.link).map(|(k, _)| k.clone()).collect();
    for k in fkeys.difference(&want) {
        v.push(("I4-dangling-data", format!("data stored for {} which is not a regular file entry", k)));
    }
    for k in want.difference(&fkeys) {
        v.push(("I4-file-without-data", format!("regular file {} has no data record", k)));
    }
    // reachability from the root through child sets
    let mut seen: BTreeSet<String> = BTreeSet::new();
    let mut stack = vec!["/".to_string()];
    while let Some(k) = stack.pop() {
        if !seen.insert(k.clone()) {
            continue;
        }
        if let Some(e) = keys.get(&k) {
            if let Some(ch) = &e.children {
                for n in ch {
                    let c = join(&k, n);
                    if keys.contains_key(&c) {
                        stack.push(c);
                    }
                }
            }
        }
    }
    for k in keys.keys() {
        if !seen.contains(k) {
            v.push(("I5-unreachable-from-root", k.clone()));
        }
    }
    match keys.get("/") {
        Some(r) if r.dir && !r.link => {},
        Some(_) => v.push(("I6-root-not-a-directory", "/".into())),
        None => v.push(("I6-root-missing", "/".into())),
    }
    if !ps(&s.cwd).starts_with('/') {
        v.push(("I6-cwd-not-absolute", ps(&s.cwd)));
    }
    if ps(&s.root) != "/" {
        v.push(("I6-root-path-changed", ps(&s.root)));
    }
    if s.poisoned {
        v.push(("I7-lock-poisoned", "poisoned".into()));
    }
    v
}

/// Observation through the public API only (what a user can see) over a path universe
pub fn api_observe<V: VirtualFileSystem>(v: &V, universe: &[String]) -> Vec<(String, String)> {
    let mut out = vec![];
    out.push(("<cwd>".to_string(), format!("{:?}", exec(v, &Op::Cwd))));
    for p in universe {
        let q = |op: Op| exec(v, &op);
        out.push((
            p.clone(),
            format!(
                "exists={:?} is_dir={:?} is_file={:?} is_symlink={:?} sd={:?} sf={:?} mode={:?} owner={:?} bytes={:?} readlink={:?} readlink_abs={:?}",
                q(Op::Exists(p.clone())),
                q(Op::IsDir(p.clone())),
                q(Op::IsFile(p.clone())),
                q(Op::IsSymlink(p.clone())),
                q(Op::IsSymlinkDir(p.clone())),
                q(Op::IsSymlinkFile(p.clone())),
                q(Op::Mode(p.clone())),
                q(Op::Owner(p.clone())),
                q(Op::ReadBytes(p.clone())),
                q(Op::Readlink(p.clone())),
                q(Op::ReadlinkAbs(p.clone())),
            ),
        ));
    }
    out
}
