// Real-filesystem side: sandbox mapping, independent disk observer (std::fs only), materialisation of states
use std::{
    collections::BTreeMap,
    os::unix::fs::{MetadataExt, PermissionsExt},
    path::Path,
};

use rivia::prelude::*;

use crate::{fsops::*, refs::go_clean};

/// map a virtual path argument ("/a/b", "file:///a", relative, ~ ...) into the sandbox rooted at r
pub fn map_path(p: &str, r: &str) -> String {
    if p == "/" {
        return r.to_string();
    }
    if let Some(rest) = p.strip_prefix("file://") {
        if rest.starts_with('/') {
            return format!("file://{}{}", r, rest);
        }
        return p.to_string();
    }
    if p.starts_with('/') {
        return format!("{}{}", r, p);
    }
    p.to_string()
}
pub fn map_op(op: &Op, r: &str) -> Op {
    let ps: Vec<String> = op.paths().iter().map(|p| map_path(p, r)).collect();
    if ps.is_empty() {
        return op.clone();
    }
    // a relative symlink target stays relative
    if let Op::Symlink(_, t) = op {
        if !t.starts_with('/') {
            return Op::Symlink(ps[0].clone(), t.clone());
        }
    }
    op.with_paths(&ps)
}

/// Observe the sandbox with std::fs only. Keys are absolute real paths (r itself and everything below).
/// Link nodes: target = raw text made absolute against the link's directory and cleaned lexically;
/// dir = what the link resolves to right now is a directory.
pub fn disk_ntree(r: &str) -> NTree {
    let mut nodes = BTreeMap::new();
    let mut stack = vec![r.to_string()];
    while let Some(p) = stack.pop() {
        let md = match std::fs::symlink_metadata(&p) {
            Ok(m) => m,
            Err(_) => continue,
        };
        let ft = md.file_type();
        let kind = if ft.is_symlink() {
            let raw = std::fs::read_link(&p).map(|x| x.to_str().unwrap_or("?").to_string()).unwrap_or_default();
            let abs = if raw.starts_with('/') { raw.clone() } else { format!("{}/{}", parent_of(&p).unwrap_or_else(|| "/".into()), raw) };
            NKind::Link { target: go_clean(&abs), dir: std::fs::metadata(&p).map(|m| m.is_dir()).unwrap_or(false) }
        } else if ft.is_dir() {
            if let Ok(rd) = std::fs::read_dir(&p) {
                for e in rd.flatten() {
                    stack.push(e.path().to_str().unwrap_or("?").to_string());
                }
            }
            NKind::Dir
        } else {
            NKind::File(std::fs::read(&p).unwrap_or_default())
        };
        nodes.insert(p, NNode { kind, mode: md.permissions().mode(), uid: md.uid(), gid: md.gid() });
    }
    let cwd = std::env::current_dir().map(|x| x.to_str().unwrap_or("?").to_string()).unwrap_or_default();
    NTree { cwd, nodes }
}

/// Restrict a Memfs tree to the sandbox subtree
pub fn restrict(t: &NTree, r: &str) -> NTree {
    NTree { cwd: t.cwd.clone(), nodes: t.nodes.iter().filter(|(k, _)| *k == r || is_under(k, r)).map(|(k, v)| (k.clone(), v.clone())).collect() }
}

/// What C02's independent observer compares: names, kinds, bytes, link targets, permission bits.
/// Owners are not part of it; a dangling link has no target kind.
pub fn comparable(t: &NTree) -> BTreeMap<String, String> {
    t.nodes
        .iter()
        .map(|(k, n)| {
            let v = match &n.kind {
                NKind::File(d) => format!("file {:o} {:?}", n.mode & 0o7777, d),
                NKind::Dir => format!("dir {:o}", n.mode & 0o7777),
                NKind::Link { target, dir } => {
                    let resolves = t.nodes.contains_key(target);
                    format!("link→{} {}", target, if resolves { if *dir { "dir" } else { "file" } } else { "dangling" })
                },
            };
            (k.clone(), v)
        })
        .collect()
}
pub fn diff_maps(a: &BTreeMap<String, String>, b: &BTreeMap<String, String>) -> String {
    let mut out = vec![];
    for k in a.keys().chain(b.keys()) {
        let (x, y) = (a.get(k), b.get(k));
        if x != y {
            let s = format!("{}: {} vs {}", k, x.map(|s| s.chars().take(60).collect::<String>()).unwrap_or("<absent>".into()), y.map(|s| s.chars().take(60).collect::<String>()).unwrap_or("<absent>".into()));
            if !out.contains(&s) {
                out.push(s);
            }
        }
        if out.len() > 5 {
            break;
        }
    }
    out.join("; ")
}

/// Create the tree (virtual keys "/", "/a", ...) below r with std::fs only. r must exist and be empty.
pub fn materialise_disk(t: &NTree, r: &str) -> Result<(), String> {
    // parents before children
    for (k, n) in &t.nodes {
        if k == "/" {
            continue;
        }
        let p = format!("{}{}", r, k);
        match &n.kind {
            NKind::Dir => std::fs::create_dir(&p).map_err(|e| format!("mkdir {}: {}", p, e))?,
            NKind::File(d) => std::fs::write(&p, d).map_err(|e| format!("write {}: {}", p, e))?,
            NKind::Link { target, .. } => {
                // the text Stdfs::symlink itself writes: the target relative to the link's directory
                let tgt = if target == "/" { r.to_string() } else { format!("{}{}", r, target) };
                let text = crate::model::ref_relative(&tgt, &parent_of(&p).unwrap());
                std::os::unix::fs::symlink(&text, &p).map_err(|e| format!("symlink {}: {}", p, e))?
            },
        }
    }
    // permissions, children before parents so that a restrictive directory mode cannot lock us out
    for (k, n) in t.nodes.iter().rev() {
        if matches!(n.kind, NKind::Link { .. }) {
            continue;
        }
        let p = if k == "/" { r.to_string() } else { format!("{}{}", r, k) };
        std::fs::set_permissions(&p, std::fs::Permissions::from_mode(n.mode & 0o7777)).map_err(|e| format!("chmod {}: {}", p, e))?;
    }
    Ok(())
}

/// Build the same tree inside a Memfs below r through the public API (the only way in)
pub fn materialise_memfs(t: &NTree, r: &str) -> Result<Memfs, String> {
    let m = Memfs::new();
    let rr = if r.is_empty() { "/".to_string() } else { r.to_string() };
    if !r.is_empty() {
        m.mkdir_p(r).map_err(|e| e.to_string())?;
    }
    for (k, n) in &t.nodes {
        let p = if k == "/" { rr.clone() } else { format!("{}{}", r, k) };
        match &n.kind {
            NKind::Dir => {
                if k != "/" {
                    m.mkdir_p(&p).map_err(|e| format!("mkdir_p {}: {}", p, e))?;
                }
            },
            NKind::File(d) => m.write_all(&p, d).map_err(|e| format!("write_all {}: {}", p, e))?,
            NKind::Link { .. } => {},
        }
    }
    // links after their targets so that the recorded kind matches the target's kind
    for (k, n) in &t.nodes {
        if let NKind::Link { target, .. } = &n.kind {
            let p = format!("{}{}", r, k);
            let tgt = if target == "/" { rr.clone() } else { format!("{}{}", r, target) };
            m.symlink(&p, &tgt).map_err(|e| format!("symlink {}: {}", p, e))?;
        }
    }
    for (k, n) in t.nodes.iter().rev() {
        if matches!(n.kind, NKind::Link { .. }) {
            continue;
        }
        let p = if k == "/" { rr.clone() } else { format!("{}{}", r, k) };
        if n.mode & 0o7777 != 0 {
            m.chmod_b(&p).and_then(|c| c.all(n.mode & 0o7777).no_recurse().exec()).map_err(|e| format!("chmod {}: {}", p, e))?;
        }
    }
    m.set_cwd(&rr).map_err(|e| e.to_string())?;
    Ok(m)
}

/// empty the sandbox directory (keeps r itself)
pub fn wipe(r: &str) {
    if std::fs::symlink_metadata(r).map(|m| !m.is_dir()).unwrap_or(false) {
        let _ = std::fs::remove_file(r);
    }
    let _ = std::fs::create_dir_all(r);
    let _ = std::fs::set_permissions(r, std::fs::Permissions::from_mode(0o755));
    if let Ok(rd) = std::fs::read_dir(r) {
        for e in rd.flatten() {
            let p = e.path();
            make_removable(&p);
            if std::fs::symlink_metadata(&p).map(|m| m.is_dir()).unwrap_or(false) {
                let _ = std::fs::remove_dir_all(&p);
            } else {
                let _ = std::fs::remove_file(&p);
            }
        }
    }
}
fn make_removable(p: &Path) {
    if let Ok(md) = std::fs::symlink_metadata(p) {
        if md.is_dir() {
            let _ = std::fs::set_permissions(p, std::fs::Permissions::from_mode(0o755));
            if let Ok(rd) = std::fs::read_dir(p) {
                for e in rd.flatten() {
                    make_removable(&e.path());
                }
            }
        }
    }
}

// ---------------------------------------------------------------------------------------------
// One call on a materialised state of the real filesystem, seen in virtual coordinates
// ---------------------------------------------------------------------------------------------
pub fn unmap_str(s: &str, root: &str) -> String {
    if s == root {
        "/".to_string()
    } else if is_under(s, root) {
        s[root.len()..].to_string()
    } else {
        s.to_string()
    }
}
pub fn unmap_res(r: Res, root: &str) -> Res {
    let ev = |mut e: EntryView| {
        e.path = unmap_str(&e.path, root);
        e.alt = unmap_str(&e.alt, root);
        if e.rel.starts_with('/') {
            e.rel = unmap_str(&e.rel, root);
        }
        if e.path == "/" {
            e.file_name = None;
        }
        e
    };
    match r {
        Res::Path(p) => Res::Path(unmap_str(&p, root)),
        Res::Paths(v) => Res::Paths(v.iter().map(|p| unmap_str(p, root)).collect()),
        Res::Entry(e) => Res::Entry(ev(e)),
        Res::Items(v) => {
            let mut v: Vec<EntryView> = v.into_iter().map(ev).collect();
            v.sort();
            Res::Items(v)
        },
        r => r,
    }
}
/// disk tree (real paths) in virtual coordinates; link modes normalised to 0o120777
pub fn unmap_ntree(d: &NTree, root: &str) -> NTree {
    let mut nodes = BTreeMap::new();
    for (k, n) in &d.nodes {
        let mut n = n.clone();
        if let NKind::Link { target, dir } = &n.kind {
            n.kind = NKind::Link { target: unmap_str(target, root), dir: *dir };
            n.mode = 0o120777;
        }
        nodes.insert(unmap_str(k, root), n);
    }
    NTree { cwd: unmap_str(&d.cwd, root), nodes }
}
/// materialise `state` below root, run the (virtual) call through Stdfs, observe; None when the state cannot be built
pub fn stdfs_step(root: &str, state: &NTree, op: &Op) -> Option<(Res, NTree, NTree)> {
    stdfs_step_prep(root, state, op, None)
}
/// the same with something done to the materialised tree (given its real root) before it is observed and used
pub fn stdfs_step_prep(root: &str, state: &NTree, op: &Op, prep: Option<&dyn Fn(&str)>) -> Option<(Res, NTree, NTree)> {
    wipe(root);
    materialise_disk(state, root).ok()?;
    if let Some(f) = prep {
        f(root);
    }
    let cwd = if state.cwd == "/" { root.to_string() } else { format!("{}{}", root, state.cwd) };
    std::env::set_current_dir(&cwd).ok()?;
    let pre = unmap_ntree(&disk_ntree(root), root);
    // (a call that does not return is attributed to the real backend, with the state it ran on)
    crate::infra::set_case(&format!("stdfs:{}:returns→stalls", op.name()), &format!("{} on {}", op.describe(), state.to_json().dump()));
    let r = exec(&Stdfs::new(), &map_op(op, root));
    let post = unmap_ntree(&disk_ntree(root), root);
    let _ = std::env::set_current_dir(root);
    Some((unmap_res(r, root), pre, post))
}
