// Reference tree filesystem written from the trait documentation (src/sys/fs/vfs.rs), not from memfs/vfs.rs.
// step() returns the set of acceptable (result pattern, post state) outcomes of one call.
use std::collections::BTreeMap;

use crate::{
    fsops::*,
    refs::{ref_abs, Env},
};

#[derive(Clone, Debug)]
pub enum Pat {
    Exact(Res),
    ErrKind(Vec<&'static str>),
    AnyErr,
    AnyBool,
}
impl Pat {
    pub fn matches(&self, r: &Res) -> bool {
        match (self, r) {
            (Pat::Exact(a), b) => a == b,
            (Pat::ErrKind(ks), Res::Err(k)) => ks.iter().any(|x| x == k),
            (Pat::AnyErr, Res::Err(_)) => true,
            (Pat::AnyBool, Res::Bool(_)) => true,
            _ => false,
        }
    }
    pub fn describe(&self) -> String {
        match self {
            Pat::Exact(Res::Err(k)) => format!("Err({})", k),
            Pat::Exact(r) => {
                let s = r.short();
                if s.len() > 120 {
                    "Ok(value)".into()
                } else {
                    s
                }
            },
            Pat::ErrKind(k) => format!("Err({})", k.join("|")),
            Pat::AnyErr => "Err".into(),
            Pat::AnyBool => "bool".into(),
        }
    }
    pub fn class(&self) -> String {
        match self {
            Pat::Exact(Res::Err(k)) => format!("Err({})", k),
            Pat::Exact(_) | Pat::AnyBool => "Ok".into(),
            Pat::ErrKind(k) => format!("Err({})", k.join("|")),
            Pat::AnyErr => "Err".into(),
        }
    }
}
#[derive(Clone, Debug)]
pub struct Outcome {
    pub res: Pat,
    pub post: NTree,
    pub either: &'static str, // "" when documented, else the either-point label
}
pub enum Expect {
    Outcomes(Vec<Outcome>),
    Unspecified(&'static str),
}

pub const DIR_DEFAULT: u32 = 0o40755;
pub const FILE_DEFAULT: u32 = 0o100644;
pub const LINK_MODE: u32 = 0o120777;
pub const OWNER: u32 = 1000;

pub fn ref_relative(p: &str, b: &str) -> String {
    if p == b {
        return p.to_string();
    }
    let pc: Vec<&str> = p.split('/').filter(|x| !x.is_empty()).collect();
    let bc: Vec<&str> = b.split('/').filter(|x| !x.is_empty()).collect();
    let common = pc.iter().zip(bc.iter()).take_while(|(x, y)| x == y).count();
    let mut out: Vec<&str> = vec![];
    for _ in common..bc.len() {
        out.push("..");
    }
    out.extend(&pc[common..]);
    out.join("/")
}

#[derive(Debug, PartialEq)]
pub enum SymErr {
    First,
    Later,
}
/// The documented grammar `[dfa]:[ugoa]+[-+=][rwx]+` (comma repeatable) evaluated clause by clause
pub fn ref_chmod_sym(mode: u32, is_dir: bool, is_file: bool, sym: &str) -> Result<u32, SymErr> {
    let mut m = mode;
    for (i, clause) in sym.split(',').enumerate() {
        let bad = || if i == 0 { SymErr::First } else { SymErr::Later };
        let (tgt, rest) = clause.split_once(':').ok_or_else(bad)?;
        if tgt.len() != 1 || !"dfa".contains(tgt) {
            return Err(bad());
        }
        let opi = rest.find(|c| c == '-' || c == '+' || c == '=').ok_or_else(bad)?;
        let (grp, opperm) = rest.split_at(opi);
        let op = opperm.chars().next().unwrap();
        let perm = &opperm[1..];
        if grp.is_empty() || perm.is_empty() {
            return Err(bad());
        }
        let mut g = 0u32;
        for c in grp.chars() {
            g |= match c {
                'u' => 0o700,
                'g' => 0o070,
                'o' => 0o007,
                'a' => 0o777,
                _ => return Err(bad()),
            };
        }
        let mut p = 0u32;
        for c in perm.chars() {
            p |= match c {
                'r' => 0o444,
                'w' => 0o222,
                'x' => 0o111,
                _ => return Err(bad()),
            };
        }
        let applies = match tgt {
            "a" => true,
            "d" => is_dir,
            _ => is_file,
        };
        if applies {
            m = match op {
                '-' => m & !(g & p),
                '+' => m | (g & p),
                _ => (m & !g) | (g & p),
            };
        }
    }
    Ok(m)
}

pub struct Model {
    pub t: NTree,
    pub env: Env,
}

fn one(res: Pat, post: NTree) -> Expect {
    Expect::Outcomes(vec![Outcome { res, post, either: "" }])
}
fn errk(k: &'static str) -> Pat {
    Pat::ErrKind(vec![k])
}

impl Model {
    pub fn new(home: &str) -> Model {
        let mut env = Env::new();
        env.insert("HOME".into(), home.into());
        Model { t: NTree::fresh(), env }
    }
    pub fn abs(&self, p: &str) -> Option<Result<String, ()>> {
        ref_abs(&self.env, &self.t.cwd, p)
    }
    fn unchanged(&self, res: Pat) -> Expect {
        one(res, self.t.clone())
    }
    fn node(&self, p: &str) -> Option<&NNode> {
        self.t.nodes.get(p)
    }
    fn is_dirlike(&self, p: &str) -> bool {
        matches!(self.node(p), Some(NNode { kind: NKind::Dir, .. }) | Some(NNode { kind: NKind::Link { dir: true, .. }, .. }))
    }

    pub fn entry_view(&self, a: &str) -> Option<EntryView> {
        let n = self.node(a)?;
        let (alt, rel, link, d, f) = match &n.kind {
            NKind::Link { target, dir } => (target.clone(), ref_relative(target, &parent_of(a).unwrap_or_else(|| "/".into())), true, *dir, !*dir),
            NKind::Dir => (String::new(), String::new(), false, true, false),
            NKind::File(_) => (String::new(), String::new(), false, false, true),
        };
        Some(EntryView {
            path: a.to_string(),
            alt,
            rel,
            is_dir: d,
            is_file: f,
            is_symlink: link,
            is_symlink_dir: link && d,
            is_symlink_file: link && f,
            is_exec: n.mode & 0o111 != 0,
            is_readonly: n.mode & 0o222 == 0,
            following: false,
            mode: n.mode,
            file_name: if a == "/" { None } else { Some(base_of(a).to_string()) },
        })
    }

    /// DFS pre-order, siblings by name, not descending into links; excludes the root itself
    pub fn listing(&self, a: &str, recursive: bool) -> Vec<String> {
        let mut out = vec![];
        let mut kids = self.t.children(a);
        kids.sort_by(|x, y| base_of(x).cmp(base_of(y)));
        for k in kids {
            out.push(k.clone());
            if recursive && self.t.is_real_dir(&k) {
                out.extend(self.listing(&k, true));
            }
        }
        out
    }

    /// parent checks shared by every creating call: Ok(()) or the documented error
    fn parent_ok(&self, a: &str) -> Result<(), Pat> {
        match parent_of(a) {
            None => Err(Pat::AnyErr),
            Some(d) => match self.node(&d) {
                None => Err(errk("DoesNotExist")),
                Some(NNode { kind: NKind::Dir, .. }) => Ok(()),
                Some(_) => Err(errk("IsNotDir")),
            },
        }
    }

    fn write_like(&self, p: &str, data: &[u8], append: bool) -> Expect {
        let a = match self.abs(p) {
            None => return Expect::Unspecified("abs"),
            Some(Err(())) => return self.unchanged(Pat::AnyErr),
            Some(Ok(a)) => a,
        };
        if a == "/" {
            return self.unchanged(Pat::AnyErr);
        }
        if let Err(e) = self.parent_ok(&a) {
            return self.unchanged(e);
        }
        let mut post = self.t.clone();
        match self.node(&a) {
            None => {
                post.nodes.insert(a, NNode { kind: NKind::File(data.to_vec()), mode: FILE_DEFAULT, uid: OWNER, gid: OWNER });
            },
            Some(NNode { kind: NKind::File(old), .. }) => {
                let mut d = if append { old.clone() } else { vec![] };
                d.extend_from_slice(data);
                post.nodes.get_mut(&a).unwrap().kind = NKind::File(d);
            },
            Some(_) => return self.unchanged(errk("IsNotFile")),
        }
        one(Pat::Exact(Res::Unit), post)
    }

    fn mkdirs(&self, a: &str, mode: u32) -> Result<NTree, Pat> {
        let mut post = self.t.clone();
        let mut cur = String::new();
        for c in a.split('/').filter(|x| !x.is_empty()) {
            cur.push('/');
            cur.push_str(c);
            match post.nodes.get(&cur) {
                None => {
                    post.nodes.insert(cur.clone(), NNode { kind: NKind::Dir, mode, uid: OWNER, gid: OWNER });
                },
                Some(NNode { kind: NKind::Dir, .. }) => {},
                Some(_) => return Err(errk("IsNotDir")),
            }
        }
        Ok(post)
    }

    pub fn step(&self, op: &Op) -> Expect {
        use Op::*;
        // resolve the first path argument where there is one
        let abs1 = |p: &str| -> Result<String, Expect> {
            match self.abs(p) {
                None => Err(Expect::Unspecified("abs")),
                Some(Err(())) => Err(if op.is_query() && matches!(op, Exists(_) | IsDir(_) | IsFile(_) | IsSymlink(_) | IsSymlinkDir(_) | IsSymlinkFile(_) | IsExec(_) | IsReadonly(_)) {
                    self.unchanged(Pat::Exact(Res::Bool(false)))
                } else {
                    self.unchanged(Pat::AnyErr)
                }),
                Some(Ok(a)) => Ok(a),
            }
        };
        macro_rules! a1 {
            ($p:expr) => {
                match abs1($p) {
                    Ok(a) => a,
                    Err(e) => return e,
                }
            };
        }
        match op {
            MkdirP(p) | MkdirM(p, _) => {
                let a = a1!(p);
                let mode = match op {
                    MkdirM(_, m) => *m | 0o40000,
                    _ => DIR_DEFAULT,
                };
                match self.mkdirs(&a, mode) {
                    Ok(post) => one(Pat::Exact(Res::Path(a)), post),
                    Err(e) => self.unchanged(e),
                }
            },
            Mkfile(p) | MkfileM(p, _) => {
                let a = a1!(p);
                if a == "/" {
                    return self.unchanged(Pat::AnyErr);
                }
                if let Err(e) = self.parent_ok(&a) {
                    return self.unchanged(e);
                }
                let mut post = self.t.clone();
                match self.node(&a) {
                    None => {
                        post.nodes.insert(a.clone(), NNode { kind: NKind::File(vec![]), mode: FILE_DEFAULT, uid: OWNER, gid: OWNER });
                    },
                    Some(NNode { kind: NKind::File(_), .. }) => {},
                    Some(_) => return self.unchanged(errk("IsNotFile")),
                }
                if let MkfileM(_, m) = op {
                    // (a mode without any permission bit is a mode like any other: same as the real filesystem)
                    post.nodes.get_mut(&a).unwrap().mode = (*m & 0o7777) | 0o100000;
                }
                one(Pat::Exact(Res::Path(a)), post)
            },
            WriteAll(p, d) | WriteH(p, d) => self.write_like(p, d, false),
            AppendAll(p, d) | AppendH(p, d) => self.write_like(p, d, true),
            WriteLines(p, l) => {
                let d: String = l.iter().map(|x| format!("{}\n", x)).collect();
                self.write_like(p, d.as_bytes(), false)
            },
            AppendLine(p, l) => self.write_like(p, format!("{}\n", l).as_bytes(), true),
            AppendLines(p, l) => {
                let d: String = l.iter().map(|x| format!("{}\n", x)).collect();
                self.write_like(p, d.as_bytes(), true)
            },
            ReadAll(p) | ReadLines(p) | ReadBytes(p) => {
                let a = a1!(p);
                match self.node(&a) {
                    None => self.unchanged(errk("DoesNotExist")),
                    Some(NNode { kind: NKind::File(d), .. }) => match op {
                        ReadBytes(_) => self.unchanged(Pat::Exact(Res::Bytes(d.clone()))),
                        ReadAll(_) => match String::from_utf8(d.clone()) {
                            Ok(s) => self.unchanged(Pat::Exact(Res::Text(s))),
                            Err(_) => self.unchanged(Pat::AnyErr),
                        },
                        _ => {
                            use std::io::BufRead;
                            let r: Result<Vec<String>, _> = std::io::BufReader::new(&d[..]).lines().collect();
                            match r {
                                Ok(l) => self.unchanged(Pat::Exact(Res::Lines(l))),
                                Err(_) => self.unchanged(Pat::AnyErr),
                            }
                        },
                    },
                    Some(NNode { kind: NKind::Dir, .. }) => self.unchanged(errk("IsNotFile")),
                    Some(_) => self.unchanged(Pat::ErrKind(vec!["IsNotFile", "DoesNotExist"])),
                }
            },
            Remove(p) => {
                let a = a1!(p);
                if a == "/" {
                    return self.unchanged(Pat::AnyErr);
                }
                match self.node(&a) {
                    None => Expect::Outcomes(vec![
                        Outcome { res: Pat::Exact(Res::Unit), post: self.t.clone(), either: "remove(absent)=Ok" },
                        Outcome { res: Pat::AnyErr, post: self.t.clone(), either: "remove(absent)=Err" },
                    ]),
                    Some(n) => {
                        if n.kind == NKind::Dir && !self.t.children(&a).is_empty() {
                            return self.unchanged(errk("DirContainsFiles"));
                        }
                        let mut post = self.t.clone();
                        post.nodes.remove(&a);
                        one(Pat::Exact(Res::Unit), post)
                    },
                }
            },
            RemoveAll(p) => {
                let a = a1!(p);
                if a == "/" {
                    return Expect::Unspecified("remove_all(/)");
                }
                let mut post = self.t.clone();
                for k in self.t.subtree(&a) {
                    post.nodes.remove(&k);
                }
                one(Pat::Exact(Res::Unit), post)
            },
            MoveP(s, d) => {
                let sa = a1!(s);
                let da = match self.abs(d) {
                    None => return Expect::Unspecified("abs"),
                    Some(Err(())) => return self.unchanged(Pat::AnyErr),
                    Some(Ok(a)) => a,
                };
                if self.node(&sa).is_none() {
                    return self.unchanged(errk("DoesNotExist"));
                }
                if sa == "/" {
                    if da == "/" {
                        return Expect::Outcomes(vec![
                            Outcome { res: Pat::Exact(Res::Unit), post: self.t.clone(), either: "move_p(onto itself)=Ok" },
                            Outcome { res: Pat::AnyErr, post: self.t.clone(), either: "move_p(onto itself)=Err" },
                        ]);
                    }
                    return self.unchanged(Pat::AnyErr);
                }
                let fin = if self.t.is_real_dir(&da) { join(&da, base_of(&sa)) } else { da.clone() };
                if fin == sa {
                    return Expect::Outcomes(vec![
                        Outcome { res: Pat::Exact(Res::Unit), post: self.t.clone(), either: "move_p(onto itself)=Ok" },
                        Outcome { res: Pat::AnyErr, post: self.t.clone(), either: "move_p(onto itself)=Err" },
                    ]);
                }
                if is_under(&fin, &sa) || is_under(&sa, &fin) {
                    // into its own subtree, or a descendant over its own ancestor
                    return self.unchanged(Pat::AnyErr);
                }
                // destination parent must be a real directory
                match parent_of(&fin).and_then(|x| self.node(&x).cloned()) {
                    Some(NNode { kind: NKind::Dir, .. }) => {},
                    _ => return self.unchanged(Pat::AnyErr),
                }
                let src_is_dir = self.t.is_real_dir(&sa);
                let mut moved = self.t.clone();
                // whatever lives at the destination is replaced
                for k in self.t.subtree(&fin) {
                    moved.nodes.remove(&k);
                }
                for k in self.t.subtree(&sa) {
                    let n = moved.nodes.remove(&k).unwrap();
                    let nk = format!("{}{}", fin, &k[sa.len()..]);
                    moved.nodes.insert(nk, n);
                }
                let ok = Outcome { res: Pat::Exact(Res::Unit), post: moved, either: "" };
                match self.node(&fin) {
                    None => Expect::Outcomes(vec![ok]),
                    Some(NNode { kind: NKind::Dir, .. }) => {
                        let empty = self.t.children(&fin).is_empty();
                        let mut v = vec![Outcome { res: Pat::AnyErr, post: self.t.clone(), either: "move_p(onto existing dir)=Err" }];
                        if empty && src_is_dir {
                            v.push(Outcome { either: "move_p(dir onto empty dir)=Ok", ..ok });
                        }
                        Expect::Outcomes(v)
                    },
                    Some(_) => {
                        if src_is_dir {
                            Expect::Outcomes(vec![
                                Outcome { res: Pat::AnyErr, post: self.t.clone(), either: "move_p(dir onto file)=Err" },
                                Outcome { either: "move_p(dir onto file)=Ok", ..ok },
                            ])
                        } else {
                            Expect::Outcomes(vec![ok])
                        }
                    },
                }
            },
            Copy(s, d) | CopyB(s, d, _, _) => self.copy(op, s, d),
            Symlink(l, t) => {
                let la = a1!(l);
                if la == "/" {
                    return self.unchanged(Pat::AnyErr);
                }
                let traw = if t.starts_with('/') { t.clone() } else { format!("{}/{}", parent_of(&la).unwrap(), t) };
                if t.is_empty() {
                    return Expect::Unspecified("symlink(empty target)");
                }
                let ta = match self.abs(&traw) {
                    None => return Expect::Unspecified("abs"),
                    Some(Err(())) => return self.unchanged(Pat::AnyErr),
                    Some(Ok(a)) => a,
                };
                if let Err(e) = self.parent_ok(&la) {
                    return self.unchanged(e);
                }
                if self.node(&la).is_some() {
                    return Expect::Outcomes(vec![
                        Outcome { res: Pat::AnyErr, post: self.t.clone(), either: "symlink(existing)=Err" },
                        Outcome { res: Pat::Exact(Res::Path(la.clone())), post: self.t.clone(), either: "symlink(existing)=Ok" },
                    ]);
                }
                let dir = self.is_dirlike(&ta);
                let mut post = self.t.clone();
                post.nodes.insert(la.clone(), NNode { kind: NKind::Link { target: ta, dir }, mode: LINK_MODE, uid: OWNER, gid: OWNER });
                one(Pat::Exact(Res::Path(la)), post)
            },
            Readlink(p) | ReadlinkAbs(p) => {
                let a = a1!(p);
                match self.node(&a) {
                    None => self.unchanged(errk("DoesNotExist")),
                    Some(NNode { kind: NKind::Link { target, .. }, .. }) => {
                        if let Readlink(_) = op {
                            self.unchanged(Pat::Exact(Res::Path(ref_relative(target, &parent_of(&a).unwrap()))))
                        } else {
                            self.unchanged(Pat::Exact(Res::Path(target.clone())))
                        }
                    },
                    Some(_) => self.unchanged(errk("IsNotSymlink")),
                }
            },
            Chmod(p, m) => self.chmod(p, &ChmodO { all: Some(*m), dirs: None, files: None, sym: None, recurse: None, follow: false }),
            ChmodB(p, o) => self.chmod(p, o),
            Chown(p, u, g) => self.chown(p, &ChownO { uid: Some(*u), gid: Some(*g), recurse: None, follow: false }),
            ChownB(p, o) => self.chown(p, o),
            SetCwd(p) => {
                let a = a1!(p);
                let mut post = self.t.clone();
                post.cwd = a.clone();
                match self.node(&a) {
                    None => self.unchanged(errk("DoesNotExist")),
                    Some(NNode { kind: NKind::Dir, .. }) | Some(NNode { kind: NKind::Link { dir: true, .. }, .. }) => one(Pat::Exact(Res::Path(a)), post),
                    Some(_) => Expect::Outcomes(vec![
                        Outcome { res: Pat::Exact(Res::Path(a)), post, either: "set_cwd(file)=Ok" },
                        Outcome { res: Pat::AnyErr, post: self.t.clone(), either: "set_cwd(file)=Err" },
                    ]),
                }
            },
            Cwd => self.unchanged(Pat::Exact(Res::Path(self.t.cwd.clone()))),
            Root => self.unchanged(Pat::Exact(Res::Path("/".into()))),
            Abs(p) => match self.abs(p) {
                None => Expect::Unspecified("abs"),
                Some(Err(())) => self.unchanged(Pat::AnyErr),
                Some(Ok(a)) => self.unchanged(Pat::Exact(Res::Path(a))),
            },
            Exists(p) => {
                let a = a1!(p);
                self.unchanged(Pat::Exact(Res::Bool(self.node(&a).is_some())))
            },
            IsDir(p) => {
                let a = a1!(p);
                self.unchanged(Pat::Exact(Res::Bool(self.t.is_real_dir(&a))))
            },
            IsFile(p) => {
                let a = a1!(p);
                self.unchanged(Pat::Exact(Res::Bool(matches!(self.node(&a), Some(NNode { kind: NKind::File(_), .. })))))
            },
            IsSymlink(p) => {
                let a = a1!(p);
                self.unchanged(Pat::Exact(Res::Bool(matches!(self.node(&a), Some(NNode { kind: NKind::Link { .. }, .. })))))
            },
            IsSymlinkDir(p) => {
                let a = a1!(p);
                self.unchanged(Pat::Exact(Res::Bool(matches!(self.node(&a), Some(NNode { kind: NKind::Link { dir: true, .. }, .. })))))
            },
            IsSymlinkFile(p) => {
                let a = a1!(p);
                self.unchanged(Pat::Exact(Res::Bool(matches!(self.node(&a), Some(NNode { kind: NKind::Link { dir: false, .. }, .. })))))
            },
            IsExec(p) | IsReadonly(p) => {
                let a = a1!(p);
                match self.node(&a) {
                    None => self.unchanged(Pat::Exact(Res::Bool(false))),
                    Some(NNode { kind: NKind::Link { .. }, .. }) => self.unchanged(Pat::AnyBool),
                    Some(n) => self.unchanged(Pat::Exact(Res::Bool(if let IsExec(_) = op { n.mode & 0o111 != 0 } else { n.mode & 0o222 == 0 }))),
                }
            },
            Mode(p) | Owner(p) | Uid(p) | Gid(p) => {
                let a = a1!(p);
                match self.node(&a) {
                    None => self.unchanged(errk("DoesNotExist")),
                    Some(n) => self.unchanged(Pat::Exact(match op {
                        Mode(_) => Res::Num(n.mode),
                        Owner(_) => Res::Pair(n.uid, n.gid),
                        Uid(_) => Res::Num(n.uid),
                        _ => Res::Num(n.gid),
                    })),
                }
            },
            Entry(p) => {
                let a = a1!(p);
                match self.entry_view(&a) {
                    None => self.unchanged(errk("DoesNotExist")),
                    Some(e) => self.unchanged(Pat::Exact(Res::Entry(e))),
                }
            },
            Paths(p) | Dirs(p) | Files(p) | AllPaths(p) | AllDirs(p) | AllFiles(p) => {
                let a = a1!(p);
                if !self.t.is_real_dir(&a) {
                    return self.unchanged(errk("IsNotDir"));
                }
                let rec = matches!(op, AllPaths(_) | AllDirs(_) | AllFiles(_));
                let l: Vec<String> = self
                    .listing(&a, rec)
                    .into_iter()
                    .filter(|k| match op {
                        Dirs(_) | AllDirs(_) => self.is_dirlike(k),
                        Files(_) | AllFiles(_) => !self.is_dirlike(k),
                        _ => true,
                    })
                    .collect();
                self.unchanged(Pat::Exact(Res::Paths(l)))
            },
            ConfigDir(_) => Expect::Unspecified("config_dir (environment dependent, judged by C18)"),
            Held(..) => Expect::Unspecified("builder held across set_cwd (when a builder resolves its path is judged differentially by C02 / C13)"),
            Entries(p) => {
                let a = a1!(p);
                if self.node(&a).is_none() {
                    return self.unchanged(errk("DoesNotExist"));
                }
                let mut v = vec![self.entry_view(&a).unwrap()];
                if self.t.is_real_dir(&a) {
                    for k in self.listing(&a, true) {
                        v.push(self.entry_view(&k).unwrap());
                    }
                }
                v.sort();
                self.unchanged(Pat::Exact(Res::Items(v)))
            },
        }
    }

    /// entries a chmod/chown visits: (path, via_follow)
    fn visited(&self, a: &str, recurse: bool, follow: bool) -> Result<Vec<String>, &'static str> {
        let mut out = vec![];
        let mut stack = vec![(a.to_string(), 0usize)];
        let mut guard = 0;
        while let Some((p, depth)) = stack.pop() {
            guard += 1;
            if guard > 500 {
                return Err("link cycle under follow"); // LinkLooping territory, not modelled here
            }
            let n = match self.node(&p) {
                Some(n) => n,
                None => continue,
            };
            match &n.kind {
                NKind::Link { target, .. } => {
                    if follow {
                        let recorded_dir = matches!(&n.kind, NKind::Link { dir: true, .. });
                        match self.node(target) {
                            Some(NNode { kind: NKind::Link { .. }, .. }) => return Err("link to link chain under follow"),
                            Some(t) => {
                                if recorded_dir != matches!(t.kind, NKind::Dir) {
                                    return Err("followed link whose recorded kind is stale");
                                }
                                stack.push((target.clone(), depth))
                            },
                            None => {
                                if recorded_dir {
                                    return Err("followed link to a directory that no longer exists");
                                }
                            },
                        }
                    } else {
                        out.push(p.clone());
                    }
                },
                NKind::Dir => {
                    out.push(p.clone());
                    if recurse {
                        for c in self.t.children(&p) {
                            stack.push((c, depth + 1));
                        }
                    }
                },
                NKind::File(_) => out.push(p.clone()),
            }
        }
        out.sort();
        out.dedup();
        Ok(out)
    }

    fn chmod(&self, p: &str, o: &ChmodO) -> Expect {
        let a = match self.abs(p) {
            None => return Expect::Unspecified("abs"),
            Some(Err(())) => return self.unchanged(Pat::AnyErr),
            Some(Ok(a)) => a,
        };
        if self.node(&a).is_none() {
            return self.unchanged(errk("DoesNotExist"));
        }
        let (mut d, mut f) = (o.dirs.unwrap_or(0), o.files.unwrap_or(0));
        if let Some(x) = o.all {
            // builder order in exec(): all first, then dirs / files override
            if o.dirs.is_none() {
                d = x;
            }
            if o.files.is_none() {
                f = x;
            }
        }
        if o.all == Some(0) || o.dirs == Some(0) || o.files == Some(0) {
            return Expect::Unspecified("octal mode 0");
        }
        if d > 0o7777 || f > 0o7777 {
            return Expect::Unspecified("octal mode with type bits");
        }
        let sym = o.sym.clone().unwrap_or_default();
        let recurse = o.recurse.unwrap_or(true);
        let vis = match self.visited(&a, recurse, o.follow) {
            Ok(v) => v,
            Err(why) => return Expect::Unspecified(why),
        };
        let mut post = self.t.clone();
        for k in vis {
            let n = post.nodes.get_mut(&k).unwrap();
            let (is_dir, is_file) = match n.kind {
                NKind::Dir => (true, false),
                NKind::File(_) => (false, true),
                NKind::Link { .. } => continue, // a symlink itself never changes
            };
            let octal = if is_dir { d } else { f };
            if octal != 0 {
                n.mode = (n.mode & !0o7777) | octal;
            } else if !sym.is_empty() {
                match ref_chmod_sym(n.mode, is_dir, is_file, &sym) {
                    Ok(m) => n.mode = m,
                    Err(SymErr::First) => return self.unchanged(Pat::AnyErr),
                    Err(SymErr::Later) => return Expect::Unspecified("malformed later clause"),
                }
            }
        }
        if !sym.is_empty() && d == 0 && f == 0 {
            // a malformed first clause is an error even when nothing is visited that it applies to
            if let Err(SymErr::First) = ref_chmod_sym(0, true, false, &sym) {
                return self.unchanged(Pat::AnyErr);
            }
        }
        one(Pat::Exact(Res::Unit), post)
    }

    fn chown(&self, p: &str, o: &ChownO) -> Expect {
        let a = match self.abs(p) {
            None => return Expect::Unspecified("abs"),
            Some(Err(())) => return self.unchanged(Pat::AnyErr),
            Some(Ok(a)) => a,
        };
        if self.node(&a).is_none() {
            return self.unchanged(errk("DoesNotExist"));
        }
        let vis = match self.visited(&a, o.recurse.unwrap_or(true), o.follow) {
            Ok(v) => v,
            Err(why) => return Expect::Unspecified(why),
        };
        let mut post = self.t.clone();
        for k in vis {
            let n = post.nodes.get_mut(&k).unwrap();
            if let Some(u) = o.uid {
                n.uid = u;
            }
            if let Some(g) = o.gid {
                n.gid = g;
            }
        }
        one(Pat::Exact(Res::Unit), post)
    }

    fn copy(&self, op: &Op, s: &str, d: &str) -> Expect {
        let (cmode, follow) = match op {
            Op::CopyB(_, _, m, f) => (m.effective(), *f),
            _ => (CopyMode::None, false),
        };
        let sa = match self.abs(s) {
            None => return Expect::Unspecified("abs"),
            Some(Err(())) => return self.unchanged(Pat::AnyErr),
            Some(Ok(a)) => a,
        };
        let da = match self.abs(d) {
            None => return Expect::Unspecified("abs"),
            Some(Err(())) => return self.unchanged(Pat::AnyErr),
            Some(Ok(a)) => a,
        };
        if sa == da {
            return Expect::Outcomes(vec![
                Outcome { res: Pat::Exact(Res::Unit), post: self.t.clone(), either: "copy(onto itself)=Ok" },
                Outcome { res: Pat::AnyErr, post: self.t.clone(), either: "copy(onto itself)=Err" },
            ]);
        }
        if self.node(&sa).is_none() {
            return self.unchanged(Pat::AnyErr);
        }
        if follow {
            return Expect::Unspecified("copy with follow (judged relationally by C09)");
        }
        if sa == "/" {
            return Expect::Unspecified("copy(/)");
        }
        let root = if self.t.is_real_dir(&da) { join(&da, base_of(&sa)) } else { da.clone() };
        if root == sa {
            // copied into its own directory: every entry would land on itself
            return Expect::Outcomes(vec![
                Outcome { res: Pat::Exact(Res::Unit), post: self.t.clone(), either: "copy(onto itself)=Ok" },
                Outcome { res: Pat::AnyErr, post: self.t.clone(), either: "copy(onto itself)=Err" },
            ]);
        }
        if is_under(&root, &sa) || is_under(&sa, &root) {
            return Expect::Unspecified("copy into itself / over an ancestor");
        }
        let (dir_mode, file_mode) = match cmode {
            CopyMode::None => (None, None),
            CopyMode::All(m) => (Some(m), Some(m)),
            CopyMode::Dirs(m) => (Some(m), None),
            CopyMode::Files(m) => (None, Some(m)),
            CopyMode::Then(..) => unreachable!(),
        };
        if dir_mode == Some(0) || file_mode == Some(0) || dir_mode.unwrap_or(0) > 0o7777 || file_mode.unwrap_or(0) > 0o7777 {
            return Expect::Unspecified("copy mode 0 / type bits");
        }
        let mut post = self.t.clone();
        // parents first
        let order: Vec<String> = self.t.subtree(&sa);
        let mkdirs = |post: &mut NTree, p: &str, mode: u32| -> bool {
            let mut cur = String::new();
            for c in p.split('/').filter(|x| !x.is_empty()) {
                cur.push('/');
                cur.push_str(c);
                match post.nodes.get(&cur) {
                    None => {
                        post.nodes.insert(cur.clone(), NNode { kind: NKind::Dir, mode: mode | 0o40000, uid: OWNER, gid: OWNER });
                    },
                    Some(NNode { kind: NKind::Dir, .. }) => {},
                    Some(_) => return false,
                }
            }
            true
        };
        for k in order {
            let n = self.t.nodes.get(&k).unwrap().clone();
            let dst = format!("{}{}", root, &k[sa.len()..]);
            match &n.kind {
                NKind::Link { target, .. } => {
                    if *target == root || is_under(target, &root) {
                        // the recorded kind depends on whether the target was copied before the link
                        return Expect::Unspecified("copy: link pointing into the destination being created");
                    }
                    match parent_of(&dst).and_then(|x| post.nodes.get(&x).cloned()) {
                        Some(NNode { kind: NKind::Dir, .. }) => {},
                        _ => return Expect::Unspecified("copy: link destination parent missing"),
                    }
                    if post.nodes.contains_key(&dst) {
                        return Expect::Unspecified("copy: link destination exists");
                    }
                    let dir = matches!(post.nodes.get(target), Some(NNode { kind: NKind::Dir, .. }) | Some(NNode { kind: NKind::Link { dir: true, .. }, .. }));
                    post.nodes.insert(dst, NNode { kind: NKind::Link { target: target.clone(), dir }, mode: LINK_MODE, uid: OWNER, gid: OWNER });
                },
                NKind::Dir => {
                    if !mkdirs(&mut post, &dst, dir_mode.unwrap_or(n.mode & 0o7777)) {
                        return Expect::Unspecified("copy: directory destination occupied by a non-directory");
                    }
                },
                NKind::File(data) => {
                    let dp = parent_of(&dst).unwrap();
                    if !post.nodes.contains_key(&dp) {
                        let src_parent_mode = self.t.nodes.get(&parent_of(&k).unwrap()).map(|x| x.mode & 0o7777).unwrap_or(0o755);
                        if !mkdirs(&mut post, &dp, dir_mode.unwrap_or(src_parent_mode)) {
                            return Expect::Unspecified("copy: parent occupied");
                        }
                    }
                    if !matches!(post.nodes.get(&dp), Some(NNode { kind: NKind::Dir, .. })) {
                        return Expect::Unspecified("copy: file destination parent is not a directory");
                    }
                    match post.nodes.get_mut(&dst) {
                        None => {
                            post.nodes.insert(
                                dst,
                                NNode { kind: NKind::File(data.clone()), mode: file_mode.map(|m| m | 0o100000).unwrap_or(n.mode), uid: n.uid, gid: n.gid },
                            );
                        },
                        Some(e) => match e.kind {
                            NKind::File(_) => {
                                // content and mode are taken over (like std::fs::copy), the owner is kept
                                e.kind = NKind::File(data.clone());
                                e.mode = file_mode.map(|m| m | 0o100000).unwrap_or(n.mode);
                            },
                            _ => return Expect::Unspecified("copy: file destination occupied by a non-file"),
                        },
                    }
                },
            }
        }
        one(Pat::Exact(Res::Unit), post)
    }
}

pub fn tree_from(t: &NTree, home: &str) -> Model {
    let mut env = Env::new();
    env.insert("HOME".into(), home.into());
    Model { t: t.clone(), env }
}

#[allow(dead_code)]
pub fn unused(_: BTreeMap<String, String>) {}
