// reference tree filesystem (filled in later)
