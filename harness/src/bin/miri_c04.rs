// Hook-free executor for Miri: small multi-threaded Memfs programs. Miri's scheduler (one seed per run) supplies
// the interleavings; Miri itself reports data races, deadlocks and UB. We add the append exactly-once check.
use std::sync::Arc;

use rivia::prelude::*;

fn main() {
    let m = Arc::new(Memfs::new());
    m.mkdir_p("/d/s").unwrap();
    m.write_all("/d/f", b"0;").unwrap();

    // program 1: appenders on one file together with readers and a lister
    let mut hs = vec![];
    for t in 0..3u32 {
        let m = m.clone();
        hs.push(std::thread::spawn(move || {
            for k in 0..2 {
                m.append_all("/d/f", format!("<{}-{}>", t, k)).unwrap();
                let _ = m.read_all("/d/f");
            }
        }));
    }
    {
        let m = m.clone();
        hs.push(std::thread::spawn(move || {
            let _ = m.all_paths("/");
            let _ = m.exists("/d/f");
            let _ = m.mkdir_p("/d/x/y");
            let _ = m.paths("/d");
        }));
    }
    for h in hs {
        h.join().unwrap();
    }
    let content = m.read_all("/d/f").unwrap();
    let mut lost = vec![];
    for t in 0..3u32 {
        for k in 0..2 {
            let tok = format!("<{}-{}>", t, k);
            if content.matches(&tok).count() != 1 {
                lost.push(tok);
            }
        }
    }
    if !lost.is_empty() {
        println!("MIRI-C04-LOST-APPEND {:?} in {:?}", lost, content);
        return;
    }

    // program 2: structure changing calls racing with each other
    let mut hs = vec![];
    let progs: Vec<Box<dyn FnOnce(Arc<Memfs>) + Send>> = vec![
        Box::new(|m| {
            let _ = m.move_p("/d/s", "/e");
            let _ = m.write_all("/d/g", b"w");
        }),
        Box::new(|m| {
            let _ = m.remove_all("/d/x");
            let _ = m.copy("/d", "/c");
        }),
        Box::new(|m| {
            let _ = m.symlink("/d/l", "/d/f");
            let _ = m.set_cwd("/d");
            let _ = m.entries("/").map(|e| e.into_iter().count());
        }),
    ];
    for p in progs {
        let m = m.clone();
        hs.push(std::thread::spawn(move || p(m)));
    }
    for h in hs {
        h.join().unwrap();
    }
    assert!(m.exists("/"));
    println!("MIRI-C04-OK");
}
