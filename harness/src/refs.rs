// Independent reference functions over plain strings (no rivia code in here).
use std::{collections::BTreeMap, path::PathBuf};

/// Direct port of Go's path.Clean (byte scanner with r, w, dotdot).
pub fn go_clean(path: &str) -> String {
    let p = path.as_bytes();
    if p.is_empty() {
        return ".".to_string();
    }
    let rooted = p[0] == b'/';
    let n = p.len();
    let mut out: Vec<u8> = Vec::with_capacity(n);
    let (mut r, mut dotdot) = (0usize, 0usize);
    if rooted {
        out.push(b'/');
        r = 1;
        dotdot = 1;
    }
    while r < n {
        if p[r] == b'/' {
            r += 1;
        } else if p[r] == b'.' && (r + 1 == n || p[r + 1] == b'/') {
            r += 1;
        } else if p[r] == b'.' && r + 1 < n && p[r + 1] == b'.' && (r + 2 == n || p[r + 2] == b'/') {
            r += 2;
            if out.len() > dotdot {
                let mut w = out.len() - 1;
                while w > dotdot && out[w] != b'/' {
                    w -= 1;
                }
                out.truncate(w);
            } else if !rooted {
                if !out.is_empty() {
                    out.push(b'/');
                }
                out.push(b'.');
                out.push(b'.');
                dotdot = out.len();
            }
        } else {
            if (rooted && out.len() != 1) || (!rooted && !out.is_empty()) {
                out.push(b'/');
            }
            while r < n && p[r] != b'/' {
                out.push(p[r]);
                r += 1;
            }
        }
    }
    if out.is_empty() {
        return ".".to_string();
    }
    String::from_utf8(out).expect("clean keeps utf8: only split at '/'")
}

/// Removes exactly one leading file:// ftp:// http:// https:// (case-insensitive), else identity
pub fn ref_trim_protocol(s: &str) -> String {
    for scheme in ["file://", "ftp://", "http://", "https://"] {
        if s.len() >= scheme.len() && s.is_char_boundary(scheme.len()) && s[..scheme.len()].eq_ignore_ascii_case(scheme) {
            return s[scheme.len()..].to_string();
        }
    }
    s.to_string()
}

/// Plain component split: (absolute?, normal-or-dot components). "." components are kept only when
/// leading (std::path::Component semantics), empty components dropped.
pub fn comps(s: &str) -> (bool, Vec<String>) {
    let abs = s.starts_with('/');
    let mut v = vec![];
    for (i, c) in s.split('/').filter(|c| !c.is_empty()).enumerate() {
        if c == "." && !(i == 0 && !abs) {
            continue;
        }
        v.push(c.to_string());
    }
    (abs, v)
}

pub type Env = BTreeMap<String, String>;

#[derive(Debug, Clone, PartialEq)]
pub enum Expanded {
    /// no '~' and no '$': the string is returned unchanged
    Verbatim(String),
    /// otherwise: compare as a component sequence (rebuilt with PathBuf::push semantics)
    Path(PathBuf),
}

/// Reference for expand() as stated by C17 (PathBuf::push re-assembly as pinned by test_pathext_expand).
/// Returns None where the statement leaves the outcome open (undelimited / unclosed variable forms).
pub fn ref_expand(env: &Env, s: &str) -> Option<Result<Expanded, ()>> {
    let tildes = s.matches('~').count();
    if tildes > 1 {
        return Some(Err(()));
    }
    let mut normalised = false;
    let after_home: String = if tildes == 1 {
        if s == "~" {
            match env.get("HOME") {
                Some(h) => h.clone(),
                None => return Some(Err(())),
            }
        } else if let Some(rest) = s.strip_prefix("~/") {
            let home = match env.get("HOME") {
                Some(h) => h.clone(),
                None => return Some(Err(())),
            };
            normalised = true;
            // components of HOME followed by those of rest, leading separators of rest removed
            let rest = rest.trim_start_matches('/');
            let mut p = PathBuf::from(&home);
            if !rest.is_empty() {
                p.push(rest);
            }
            let p: PathBuf = p.components().collect();
            p.to_str().unwrap().to_string()
        } else {
            return Some(Err(()));
        }
    } else {
        s.to_string()
    };
    if !after_home.contains('$') {
        if tildes == 0 {
            return Some(Ok(Expanded::Verbatim(after_home)));
        }
        let _ = normalised;
        return Some(Ok(Expanded::Path(PathBuf::from(after_home))));
    }
    // variable expansion per component
    let mut out = PathBuf::new();
    let abs = after_home.starts_with('/');
    if abs {
        out.push("/");
    }
    let mut first = true;
    for seg in after_home.split('/').filter(|c| !c.is_empty()) {
        if seg == "." {
            if first && !abs {
                out.push(".");
            }
            first = false;
            continue;
        }
        first = false;
        if seg == ".." {
            out.push("..");
            continue;
        }
        let cs: Vec<char> = seg.chars().collect();
        let mut i = 0;
        let mut acc = String::new();
        while i < cs.len() {
            if cs[i] != '$' {
                acc.push(cs[i]);
                i += 1;
                continue;
            }
            i += 1; // the '$'
            let braced = i < cs.len() && cs[i] == '{';
            if braced {
                i += 1;
            }
            let st = i;
            while i < cs.len() && cs[i] != '$' && cs[i] != '}' {
                i += 1;
            }
            let name: String = cs[st..i].iter().collect();
            if braced {
                if i < cs.len() && cs[i] == '}' {
                    i += 1;
                } else {
                    return None; // unclosed brace: not specified
                }
            } else if i < cs.len() && cs[i] == '}' {
                return None; // stray closing brace after an unbraced name: not specified
            }
            if name.is_empty() {
                return Some(Err(()));
            }
            if !name.chars().all(|c| c.is_ascii_alphanumeric() || c == '_') {
                return None; // where an undelimited name ends is not specified
            }
            match env.get(&name) {
                Some(v) => acc.push_str(v),
                None => return Some(Err(())),
            }
        }
        out.push(acc);
    }
    Some(Ok(Expanded::Path(out)))
}

/// Reference for abs(): expand, trim protocol, clean, resolve against cwd.
pub fn ref_abs(env: &Env, cwd: &str, s: &str) -> Option<Result<String, ()>> {
    if s.is_empty() {
        return Some(Err(()));
    }
    let e = match ref_expand(env, s)? {
        Ok(Expanded::Verbatim(x)) => x,
        Ok(Expanded::Path(p)) => p.to_str().unwrap().to_string(),
        Err(()) => return Some(Err(())),
    };
    let t = ref_trim_protocol(&e);
    let c = go_clean(&t);
    if c.starts_with('/') {
        return Some(Ok(c));
    }
    let mut cur: Vec<String> = cwd.split('/').filter(|x| !x.is_empty()).map(|x| x.to_string()).collect();
    let mut rest: Vec<&str> = vec![];
    for part in c.split('/') {
        if part == ".." && rest.is_empty() {
            if cur.is_empty() {
                return Some(Err(()));
            }
            cur.pop();
        } else if part == "." || part.is_empty() {
        } else {
            rest.push(part);
        }
    }
    let mut out = String::new();
    for x in cur.iter().map(|x| x.as_str()).chain(rest.into_iter()) {
        out.push('/');
        out.push_str(x);
    }
    if out.is_empty() {
        out.push('/');
    }
    Some(Ok(out))
}

/// Enumerate all strings of length 0..=max over alphabet, calling f(index, &str)
pub fn for_all_strings(alpha: &[&str], max: usize, mut f: impl FnMut(u64, &str)) {
    let mut idx: u64 = 0;
    let mut buf = String::new();
    let a = alpha.len() as u64;
    for len in 0..=max {
        let total = a.pow(len as u32);
        for n in 0..total {
            buf.clear();
            let mut x = n;
            for _ in 0..len {
                buf.push_str(alpha[(x % a) as usize]);
                x /= a;
            }
            f(idx, &buf);
            idx += 1;
        }
    }
}

pub fn count_strings(alpha: usize, max: usize) -> u64 {
    let mut t = 0u64;
    let mut p = 1u64;
    for _ in 0..=max {
        t += p;
        p *= alpha as u64;
    }
    t
}
