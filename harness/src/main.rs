#![allow(dead_code, unused_imports)]
// rivia-verif: runtime monitors for the rivia properties C01..C20.
//   rivia-verif run <Cnn> [--tier quick|thorough] [--seed N] [--shards N]
//   rivia-verif worker <Cnn> --tier T --seed N --shard i/N --out FILE      (internal)
//   rivia-verif envprobe <mode> ...                                          (internal, child processes)
mod infra;
mod refs;
mod props;
mod model;
mod fsops;
mod sched;
mod stdside;

use std::{
    collections::BTreeMap,
    io::Write,
    process::{Command, Stdio},
    time::{Duration, Instant},
};

use infra::*;

#[global_allocator]
static GLOBAL: CountingAlloc = CountingAlloc;

pub fn verif_dir() -> String {
    std::env::var("VERIF_DIR").unwrap_or_else(|_| "/verif".to_string())
}

fn arg_val(args: &[String], name: &str) -> Option<String> {
    args.iter().position(|a| a == name).and_then(|i| args.get(i + 1).cloned())
}

fn main() {
    let args: Vec<String> = std::env::args().collect();
    if args.len() < 2 {
        eprintln!("usage: rivia-verif run|worker|envprobe ...");
        std::process::exit(2);
    }
    match args[1].as_str() {
        "run" => std::process::exit(run(&args[2..])),
        "worker" => worker(&args[2..]),
        "envprobe" => props::envprobe(&args[2..]),
        "list" => {
            for p in props::registry() {
                println!("{}", p.id);
            }
        },
        _ => {
            eprintln!("unknown subcommand");
            std::process::exit(2);
        },
    }
}

fn worker(args: &[String]) {
    let prop = args[0].clone();
    let thorough = arg_val(args, "--tier").map(|t| t == "thorough").unwrap_or(false);
    let seed: u64 = arg_val(args, "--seed").and_then(|s| s.parse().ok()).unwrap_or(1);
    let shard_s = arg_val(args, "--shard").unwrap_or_else(|| "0/1".to_string());
    let mut it = shard_s.split('/');
    let shard: usize = it.next().unwrap().parse().unwrap();
    let shards: usize = it.next().unwrap().parse().unwrap();
    let out = arg_val(args, "--out").expect("--out");
    let ctx = Ctx { prop: prop.clone(), thorough, seed, shard, shards };
    // the worker may drop privileges later: make its output files writable for anybody up front
    // (both files are opened now and written through the open descriptors, so that a directory the new uid may
    // not traverse - e.g. a snapshot below /root - does not matter)
    let mut out_file = std::fs::File::create(&out).expect("create report file");
    *STALL_FILE.lock().unwrap() = std::fs::File::create(format!("{}.stall", out)).ok();
    unsafe {
        libc::umask(0o022);
    }
    silence_panics();
    install_crash_handler();
    LIVE_LIMIT.store(3usize << 30, std::sync::atomic::Ordering::SeqCst);
    start_watchdog(format!("{}.stall", out), 20.0, 90.0);
    let p = props::registry().into_iter().find(|p| p.id == prop).expect("unknown property");
    let mut rep = Report::new();
    let r = catch(|| (p.run)(&ctx, &mut rep));
    let mut j = rep.to_json();
    if let Err(msg) = r {
        // a panic that escaped the monitors is a harness error, never a violation
        if let J::Obj(v) = &mut j {
            v.push(("harness_error".to_string(), J::s(format!("worker panic: {} at {}", msg, last_panic_loc()))));
        }
    }
    out_file.write_all(j.dump().as_bytes()).expect("write report");
    let _ = out_file.flush();
}

struct Known {
    prop: String,
    sig: String,
    text: String,
}
fn load_known() -> Vec<Known> {
    let mut v = vec![];
    let p = format!("{}/known_findings.txt", verif_dir());
    if let Ok(s) = std::fs::read_to_string(&p) {
        for line in s.lines() {
            let line = line.trim();
            if let Some(rest) = line.strip_prefix("known:") {
                let (head, text) = match rest.split_once("::") {
                    Some((a, b)) => (a.trim(), b.trim()),
                    None => (rest.trim(), ""),
                };
                let mut prop = String::new();
                let mut sig = String::new();
                if let Some(i) = head.find("sig=") {
                    sig = head[i + 4..].trim().to_string();
                    for tok in head[..i].split_whitespace() {
                        if let Some(x) = tok.strip_prefix("property=") {
                            prop = x.to_string();
                        }
                    }
                }
                if !prop.is_empty() && !sig.is_empty() {
                    v.push(Known { prop, sig, text: text.to_string() });
                }
            }
        }
    }
    v
}
/// exact match, or a glob where each '*' stands for any run of characters other than ',' ')' and ':'
/// (so a wildcard can replace one argument class or the backend, never widen the outcome part)
fn sig_matches(pat: &str, sig: &str) -> bool {
    fn rec(p: &[char], s: &[char]) -> bool {
        match p.first() {
            None => s.is_empty(),
            Some('*') => {
                let mut i = 0;
                loop {
                    if rec(&p[1..], &s[i..]) {
                        return true;
                    }
                    if i >= s.len() || s[i] == ',' || s[i] == ')' || s[i] == ':' {
                        return false;
                    }
                    i += 1;
                }
            },
            Some(c) => !s.is_empty() && s[0] == *c && rec(&p[1..], &s[1..]),
        }
    }
    let p: Vec<char> = pat.chars().collect();
    let s: Vec<char> = sig.chars().collect();
    rec(&p, &s)
}

fn run(args: &[String]) -> i32 {
    let prop = args[0].clone();
    let tier = arg_val(args, "--tier").or_else(|| std::env::var("VERIF_TIER").ok()).unwrap_or_else(|| "quick".to_string());
    let thorough = tier == "thorough";
    let seed: u64 = arg_val(args, "--seed")
        .or_else(|| std::env::var("VERIF_SEED").ok())
        .and_then(|s| s.trim().parse::<i64>().ok())
        .map(|x| x as u64)
        .unwrap_or(1);
    let p = match props::registry().into_iter().find(|p| p.id == prop) {
        Some(p) => p,
        None => {
            println!("HARNESS-ERROR unknown property {}", prop);
            return 2;
        },
    };
    let ncpu = std::thread::available_parallelism().map(|x| x.get()).unwrap_or(4);
    let shards: usize = arg_val(args, "--shards").and_then(|s| s.parse().ok()).unwrap_or_else(|| {
        let want = if thorough { p.shards_thorough } else { p.shards_quick };
        want.min(ncpu).max(1)
    });
    let t0 = Instant::now();
    let vd = verif_dir();
    let _ = std::fs::remove_dir_all(format!("{}/replays/{}", vd, prop));
    let run_dir = format!("{}/runs/{}", vd, prop);
    let _ = std::fs::remove_dir_all(&run_dir);
    std::fs::create_dir_all(&run_dir).unwrap();
    let exe = std::env::current_exe().unwrap();
    let budget = Duration::from_secs(if thorough { p.budget_thorough_s } else { p.budget_quick_s });

    // properties whose verdict depends on integer overflow semantics run a second time in a wrapping
    // (release-like) build of the harness + rivia
    let wrap_bin = std::env::var("VERIF_WRAP_BIN").ok().filter(|b| !b.is_empty() && ["C07", "C12", "C19"].contains(&prop.as_str()) && std::path::Path::new(b).exists());
    let mut children = vec![];
    let mut plans: Vec<(usize, String, std::path::PathBuf)> = (0..shards).map(|i| (i, format!("{}/shard{}.json", run_dir, i), exe.clone())).collect();
    if let Some(wb) = &wrap_bin {
        for i in 0..shards {
            plans.push((i, format!("{}/shardW{}.json", run_dir, i), std::path::PathBuf::from(wb)));
        }
    }
    for (i, out, bin) in plans {
        let log = std::fs::File::create(format!("{}.log", out)).unwrap();
        let c = Command::new(&bin)
            .args(["worker", &prop, "--tier", &tier, "--seed", &seed.to_string(), "--shard", &format!("{}/{}", i, shards), "--out", &out])
            .stdin(Stdio::null())
            .stdout(Stdio::from(log.try_clone().unwrap()))
            .stderr(Stdio::from(log))
            .spawn()
            .expect("spawn worker");
        children.push((i, c, out));
    }
    let child_pids: Vec<u32> = children.iter().map(|(_, c, _)| c.id()).collect();
    let mut total = Report::new();
    total.max_samples = 8;
    let mut harness_errors: Vec<String> = vec![];
    for (i, mut c, out) in children {
        let status = loop {
            match c.try_wait() {
                Ok(Some(s)) => break Some(s),
                Ok(None) => {
                    if t0.elapsed() > budget {
                        let _ = c.kill();
                        let _ = c.wait();
                        break None;
                    }
                    std::thread::sleep(Duration::from_millis(50));
                },
                Err(_) => break None,
            }
        };
        let stall = std::fs::read_to_string(format!("{}.stall", out)).ok().filter(|s| !s.trim().is_empty()).and_then(|s| J::parse(&s).ok());
        match std::fs::read_to_string(&out).ok().filter(|s| !s.trim().is_empty()).and_then(|s| J::parse(&s).ok()) {
            Some(j) => {
                if let Some(e) = j.get("harness_error").and_then(|x| x.as_str()) {
                    harness_errors.push(format!("shard {}: {}", i, e));
                }
                total.merge_json(&j);
            },
            None => {
                if let Some(st) = stall {
                    let kind = st.get("kind").and_then(|x| x.as_str()).unwrap_or("?").to_string();
                    let sig = st.get("sig").and_then(|x| x.as_str()).unwrap_or("?").to_string();
                    if kind == "stall-inconclusive" || sig.is_empty() || sig == "?" {
                        // (a stall outside any monitored call - e.g. while the harness itself computes - is not a verdict)
                        total.inconclusive(&format!("shard {} stalled without a verdict in case {}", i, sig));
                        total.exhaustive = false;
                    } else {
                        total.violation(&format!("{}:{}", kind, sig), st.clone());
                        total.exhaustive = false;
                    }
                } else if status.is_none() {
                    total.inconclusive(&format!("shard {} exceeded the wall-clock budget of {} s and was stopped", i, budget.as_secs()));
                    total.exhaustive = false;
                } else {
                    harness_errors.push(format!("shard {} died without a report: {:?}", i, status));
                }
            },
        }
    }

    // sandboxes of workers that were stopped or died
    let tmp = fsops::tmp_root();
    if let Ok(rd) = std::fs::read_dir(&tmp) {
        for e in rd.flatten() {
            let name = e.file_name().to_str().unwrap_or("").to_string();
            if name.starts_with("rv-") && child_pids.iter().any(|p| name.contains(&format!("-{}-", p))) {
                let _ = Command::new("chmod").args(["-R", "u+rwx", e.path().to_str().unwrap()]).output();
                let _ = std::fs::remove_dir_all(e.path());
            }
        }
    }

    // Parent-side tool steps (miri, strace ...)
    let ctx = Ctx { prop: prop.clone(), thorough, seed, shard: 0, shards: 1 };
    let mut tool_notes: Vec<J> = vec![];
    if let Some(t) = p.tools {
        match catch(|| t(&ctx, &mut total)) {
            Ok(notes) => tool_notes = notes,
            Err(e) => harness_errors.push(format!("tool step panicked: {}", e)),
        }
    }

    // Observation floor
    if harness_errors.is_empty() && total.evals < p.min_evals && total.viols.is_empty() && total.inconclusive.is_empty() {
        harness_errors.push(format!("observation floor not met: {} evaluations < {}", total.evals, p.min_evals));
    }
    if harness_errors.is_empty() && total.samples.is_empty() && total.viols.is_empty() {
        harness_errors.push("observation floor not met: the run recorded no sample case".to_string());
    }
    if harness_errors.is_empty() && total.keys.len() < 2 && total.viols.is_empty() {
        harness_errors.push("observation floor not met: fewer than 2 distinct classes".to_string());
    }

    // Known findings
    let known = load_known();
    let mut known_seen: Vec<(String, String)> = vec![];
    let mut new_viols: Vec<(String, u64, J)> = vec![];
    for (sig, (cnt, w)) in &total.viols {
        if let Some(k) = known.iter().find(|k| k.prop == prop && sig_matches(&k.sig, sig)) {
            known_seen.push((sig.clone(), k.text.clone()));
        } else {
            new_viols.push((sig.clone(), *cnt, w.clone()));
        }
    }

    // Replays
    let mut viol_lines = vec![];
    if !new_viols.is_empty() {
        let rdir = format!("{}/replays/{}", vd, prop);
        std::fs::create_dir_all(&rdir).unwrap();
        for (sig, cnt, w) in &new_viols {
            let path = format!("{}/{:016x}.json", rdir, hash64(sig));
            let j = J::obj(vec![
                ("property", J::s(&prop)),
                ("signature", J::s(sig)),
                ("count", J::Int(*cnt as i64)),
                ("tier", J::s(&tier)),
                ("seed", J::Int(seed as i64)),
                ("witness", w.clone()),
            ]);
            std::fs::write(&path, j.dump()).unwrap();
            viol_lines.push((sig.clone(), path));
        }
    }

    // Evidence
    let wall = t0.elapsed().as_secs_f64();
    let mut coverage: Vec<(String, J)> = vec![
        ("evaluations".into(), J::Int(total.evals as i64)),
        ("distinct_nontrivial".into(), J::Int(total.keys.len() as i64)),
        ("rule".into(), J::s(p.rule)),
        ("samples".into(), J::Arr(total.samples.clone())),
        ("exhaustive".into(), J::Bool(total.exhaustive && p.exhaustive_capable)),
        ("counters".into(), J::Obj(total.counters.iter().map(|(k, v)| (k.clone(), J::Int(*v as i64))).collect())),
        ("shards".into(), J::Int(shards as i64)),
        ("arithmetic_profiles".into(), J::strs(&if wrap_bin.is_some() { vec!["overflow-checks", "wrapping"] } else { vec!["overflow-checks"] })),
        ("inconclusive".into(), J::Arr(total.inconclusive.iter().map(J::s).collect())),
        (
            "known_findings_observed".into(),
            J::Arr(known_seen.iter().map(|(s, t)| J::obj(vec![("signature", J::s(s)), ("what", J::s(t))])).collect()),
        ),
        (
            "violation_signatures".into(),
            J::Arr(new_viols.iter().map(|(s, c, _)| J::obj(vec![("signature", J::s(s)), ("count", J::Int(*c as i64))])).collect()),
        ),
        ("tool_steps".into(), J::Arr(tool_notes)),
        ("notes".into(), J::Arr(total.notes.iter().map(J::s).collect())),
    ];
    if !harness_errors.is_empty() {
        coverage.push(("harness_errors".into(), J::strs(&harness_errors)));
    }
    let ev = J::Obj(vec![
        ("property_id".into(), J::s(&prop)),
        ("tier".into(), J::s(&tier)),
        ("seed".into(), J::Int(seed as i64)),
        ("level".into(), J::s("exploration")),
        ("coverage".into(), J::Obj(coverage)),
        ("assumptions".into(), J::strs(p.assumptions)),
        ("wall_s".into(), J::Num((wall * 100.0).round() / 100.0)),
        ("violations".into(), J::Int(new_viols.len() as i64)),
    ]);
    let _ = std::fs::create_dir_all(format!("{}/evidence", vd));
    std::fs::write(format!("{}/evidence/{}.json", vd, prop), ev.dump() + "\n").unwrap();

    // Verdict lines
    let stdout = std::io::stdout();
    let mut o = stdout.lock();
    let mut cnt: BTreeMap<&str, u64> = BTreeMap::new();
    for (k, v) in &total.counters {
        cnt.insert(k, *v);
    }
    let _ = writeln!(
        o,
        "{} {} seed={} shards={} evaluations={} distinct={} wall={:.1}s inconclusive={}",
        prop,
        tier,
        seed,
        shards,
        total.evals,
        total.keys.len(),
        wall,
        total.inconclusive.len()
    );
    // one line per listed finding (a listed finding may cover several observed signatures)
    for k in known.iter().filter(|k| k.prop == prop) {
        let seen: Vec<&String> = total.viols.keys().filter(|sig| known.iter().find(|x| x.prop == prop && sig_matches(&x.sig, sig)).map(|x| x.sig == k.sig).unwrap_or(false)).collect();
        if let Some(first) = seen.first() {
            let _ = writeln!(o, "KNOWN-FINDING: property={} {} [{} observed signature(s), e.g. {}] {}", prop, k.sig, seen.len(), first, k.text);
        }
    }
    for s in &total.inconclusive {
        let _ = writeln!(o, "INCONCLUSIVE: {}", s);
    }
    if !harness_errors.is_empty() {
        for e in &harness_errors {
            let _ = writeln!(o, "HARNESS-ERROR {}", e);
        }
        return 2;
    }
    if !viol_lines.is_empty() {
        for (sig, path) in &viol_lines {
            let _ = writeln!(o, "VIOLATION property={} replay={} signature={}", prop, path, sig);
        }
        return 1;
    }
    let _ = writeln!(o, "HELD property={} on everything explored", prop);
    0
}
