// controlled scheduler (filled in later)
