// Controlled scheduler over the Memfs guard hook (H1): real threads running the real Memfs, one runnable at a
// time, a schedule = the sequence of thread choices at critical-section boundaries; plus the free-running mode
// used by the stress runs (the hook then only tracks which threads are between "before acquire" and "release").
use std::{
    cell::Cell,
    sync::{
        atomic::{AtomicBool, AtomicI64, AtomicU64, AtomicUsize, Ordering},
        Arc, Condvar, Mutex,
    },
};

use rivia::{prelude::*, sys::verif::{set_guard_hook, GuardEvent}};

use crate::fsops::*;

thread_local! {
    static TID: Cell<Option<usize>> = Cell::new(None);
    static HOLDING: Cell<u32> = Cell::new(0);
    static HELD_WRITE: Cell<bool> = Cell::new(false);
    static FIRST_ACQ: Cell<bool> = Cell::new(true);
}

#[derive(Clone, Copy, PartialEq, Debug)]
enum TState {
    Starting,
    Parked,
    Running,
    Finished,
}

struct State {
    threads: Vec<TState>,
    current: Option<usize>,
    clock: u64,
    nested: Vec<String>,
    guard_events: u64,
}

pub struct Sched {
    m: Mutex<State>,
    cv: Condvar,
}

static CONTROLLED: AtomicBool = AtomicBool::new(false);
static SCHED: Mutex<Option<Arc<Sched>>> = Mutex::new(None);
// free-running mode bookkeeping
pub static IN_SECTION: AtomicI64 = AtomicI64::new(0); // threads between before-acquire and release
pub static FREE_EVENTS: AtomicU64 = AtomicU64::new(0);
pub static FREE_NESTED: AtomicUsize = AtomicUsize::new(0);

fn current_sched() -> Option<Arc<Sched>> {
    SCHED.lock().ok().and_then(|g| g.clone())
}

/// calls of the executions go through `Vfs::Memfs(instance.clone())` instead of the instance itself
pub static VIA_WRAPPER: std::sync::atomic::AtomicBool = std::sync::atomic::AtomicBool::new(false);

pub fn install_hook() {
    set_guard_hook(Some(Arc::new(|ev: GuardEvent| {
        let tid = TID.with(|t| t.get());
        let tid = match tid {
            Some(t) => t,
            None => return, // not a program thread (set-up, replays, observers)
        };
        match ev {
            GuardEvent::BeforeRead | GuardEvent::BeforeWrite => {
                let holding = HOLDING.with(|h| h.get());
                if CONTROLLED.load(Ordering::SeqCst) {
                    let s = match current_sched() {
                        Some(s) => s,
                        None => return,
                    };
                    if holding > 0 {
                        let held_write = HELD_WRITE.with(|h| h.get());
                        let what = format!(
                            "{} while holding a {} guard",
                            if ev == GuardEvent::BeforeWrite { "write_guard()" } else { "read_guard()" },
                            if held_write { "write" } else { "read" }
                        );
                        s.m.lock().unwrap().nested.push(what.clone());
                        if held_write || ev == GuardEvent::BeforeWrite {
                            // would block on its own guard for ever: leave the call by unwinding
                            panic!("verif: nested guard acquisition that self-deadlocks: {}", what);
                        }
                    } else if !FIRST_ACQ.with(|f| f.replace(false)) {
                        s.yield_now(tid);
                    }
                    s.m.lock().unwrap().guard_events += 1;
                } else {
                    if holding > 0 {
                        FREE_NESTED.fetch_add(1, Ordering::SeqCst);
                    }
                    IN_SECTION.fetch_add(1, Ordering::SeqCst);
                    FREE_EVENTS.fetch_add(1, Ordering::Relaxed);
                }
                HOLDING.with(|h| h.set(holding + 1));
                if ev == GuardEvent::BeforeWrite {
                    HELD_WRITE.with(|h| h.set(true));
                }
            },
            GuardEvent::ReleaseRead | GuardEvent::ReleaseWrite => {
                HOLDING.with(|h| h.set(h.get().saturating_sub(1)));
                if ev == GuardEvent::ReleaseWrite {
                    HELD_WRITE.with(|h| h.set(false));
                }
                if !CONTROLLED.load(Ordering::SeqCst) {
                    IN_SECTION.fetch_sub(1, Ordering::SeqCst);
                    FREE_EVENTS.fetch_add(1, Ordering::Relaxed);
                }
            },
        }
    })));
}

impl Sched {
    fn yield_now(&self, tid: usize) {
        let mut g = self.m.lock().unwrap();
        g.threads[tid] = TState::Parked;
        g.current = None;
        self.cv.notify_all();
        while g.current != Some(tid) {
            g = self.cv.wait(g).unwrap();
        }
        g.threads[tid] = TState::Running;
    }
    fn finish(&self, tid: usize) {
        let mut g = self.m.lock().unwrap();
        g.threads[tid] = TState::Finished;
        if g.current == Some(tid) {
            g.current = None;
        }
        self.cv.notify_all();
    }
    fn tick(&self) -> u64 {
        let mut g = self.m.lock().unwrap();
        g.clock += 1;
        g.clock
    }
}

#[derive(Clone, Debug)]
pub struct CallRec {
    pub thread: usize,
    pub index: usize,
    pub op: Op,
    pub start: u64,
    pub end: u64,
    pub res: Res,
}

pub struct Execution {
    pub calls: Vec<CallRec>,
    pub choices: Vec<(usize, usize)>, // (enabled count, picked index) at every scheduling point
    pub nested: Vec<String>,
    pub guard_events: u64,
    pub final_snapshot: Snapshot,
}

/// Run `program` (one Vec<Op> per thread) on `mem` under the schedule prefix `prefix` (then first-enabled).
pub fn run_controlled(mem: Arc<Memfs>, program: &[Vec<Op>], prefix: &[usize]) -> Execution {
    let n = program.len();
    let s = Arc::new(Sched { m: Mutex::new(State { threads: vec![TState::Starting; n], current: None, clock: 0, nested: vec![], guard_events: 0 }), cv: Condvar::new() });
    *SCHED.lock().unwrap() = Some(s.clone());
    CONTROLLED.store(true, Ordering::SeqCst);
    let results: Arc<Mutex<Vec<CallRec>>> = Arc::new(Mutex::new(vec![]));
    let mut choices = vec![];
    std::thread::scope(|scope| {
        for (tid, ops) in program.iter().enumerate() {
            let s = s.clone();
            let mem = mem.clone();
            let results = results.clone();
            scope.spawn(move || {
                TID.with(|t| t.set(Some(tid)));
                HOLDING.with(|h| h.set(0));
                HELD_WRITE.with(|h| h.set(false));
                for (i, op) in ops.iter().enumerate() {
                    s.yield_now(tid); // the call becomes runnable here: its start stamp is taken when it is picked
                    FIRST_ACQ.with(|f| f.set(true));
                    let start = s.tick();
                    let res = if VIA_WRAPPER.load(std::sync::atomic::Ordering::Relaxed) {
                        // the same shared instance behind the enum wrapper
                        exec(&Vfs::Memfs(mem.verif_share()), op)
                    } else {
                        exec(&*mem, op)
                    };
                    // a call that unwound out of a critical section leaves the counters dirty
                    HOLDING.with(|h| h.set(0));
                    HELD_WRITE.with(|h| h.set(false));
                    let end = s.tick();
                    results.lock().unwrap().push(CallRec { thread: tid, index: i, op: op.clone(), start, end, res });
                }
                TID.with(|t| t.set(None));
                s.finish(tid);
            });
        }
        // the scheduler
        let mut step = 0;
        loop {
            let mut g = s.m.lock().unwrap();
            while g.current.is_some() || g.threads.iter().any(|t| *t == TState::Starting || *t == TState::Running) {
                g = s.cv.wait(g).unwrap();
            }
            let enabled: Vec<usize> = g.threads.iter().enumerate().filter(|(_, t)| **t == TState::Parked).map(|(i, _)| i).collect();
            if enabled.is_empty() {
                break;
            }
            let pick = prefix.get(step).cloned().unwrap_or(0).min(enabled.len() - 1);
            choices.push((enabled.len(), pick));
            step += 1;
            g.current = Some(enabled[pick]);
            g.threads[enabled[pick]] = TState::Running;
            s.cv.notify_all();
        }
    });
    CONTROLLED.store(false, Ordering::SeqCst);
    *SCHED.lock().unwrap() = None;
    let g = s.m.lock().unwrap();
    let mut calls = results.lock().unwrap().clone();
    calls.sort_by_key(|c| c.start);
    Execution { calls, choices, nested: g.nested.clone(), guard_events: g.guard_events, final_snapshot: mem.verif_snapshot() }
}

/// next schedule prefix in depth-first order, None when all schedules have been enumerated
pub fn next_prefix(choices: &[(usize, usize)]) -> Option<Vec<usize>> {
    let mut i = choices.len();
    while i > 0 {
        i -= 1;
        if choices[i].1 + 1 < choices[i].0 {
            let mut p: Vec<usize> = choices[..i].iter().map(|c| c.1).collect();
            p.push(choices[i].1 + 1);
            return Some(p);
        }
    }
    None
}

/// Free-running execution: the same program on real threads released by a barrier; stamps from a global clock.
pub fn run_free(mem: Arc<Memfs>, program: &[Vec<Op>], clock: &AtomicU64) -> Vec<CallRec> {
    let results: Arc<Mutex<Vec<CallRec>>> = Arc::new(Mutex::new(vec![]));
    // a spinning start line: the threads leave it within nanoseconds of each other, so that calls really overlap
    let ready = Arc::new(AtomicUsize::new(0));
    let nthreads = program.len();
    std::thread::scope(|scope| {
        for (tid, ops) in program.iter().enumerate() {
            let mem = mem.clone();
            let results = results.clone();
            let ready = ready.clone();
            scope.spawn(move || {
                TID.with(|t| t.set(Some(tid)));
                HOLDING.with(|h| h.set(0));
                HELD_WRITE.with(|h| h.set(false));
                ready.fetch_add(1, Ordering::SeqCst);
                let t0 = std::time::Instant::now();
                while ready.load(Ordering::SeqCst) < nthreads && t0.elapsed().as_millis() < 200 {
                    std::hint::spin_loop();
                }
                let mut mine = vec![];
                for (i, op) in ops.iter().enumerate() {
                    let start = clock.fetch_add(1, Ordering::SeqCst);
                    let res = if VIA_WRAPPER.load(std::sync::atomic::Ordering::Relaxed) {
                        // the same shared instance behind the enum wrapper
                        exec(&Vfs::Memfs(mem.verif_share()), op)
                    } else {
                        exec(&*mem, op)
                    };
                    let end = clock.fetch_add(1, Ordering::SeqCst);
                    mine.push(CallRec { thread: tid, index: i, op: op.clone(), start, end, res });
                }
                TID.with(|t| t.set(None));
                results.lock().unwrap().extend(mine);
            });
        }
    });
    let mut calls = results.lock().unwrap().clone();
    calls.sort_by_key(|c| c.start);
    calls
}
