// Shared infrastructure: PRNG, JSON, report, case tracking + watchdog, counting allocator.
use std::{
    alloc::{GlobalAlloc, Layout, System},
    collections::{BTreeMap, BTreeSet, HashSet},
    fmt::Write as _,
    sync::{
        atomic::{AtomicBool, AtomicU64, AtomicUsize, Ordering},
        Mutex,
    },
};

// ---------------------------------------------------------------------------------------------
// PRNG (splitmix64), keyed streams
// ---------------------------------------------------------------------------------------------
#[derive(Clone)]
pub struct Rng(pub u64);
impl Rng {
    pub fn new(seed: u64, key: &str) -> Rng {
        let mut h = seed ^ 0x9E3779B97F4A7C15;
        for b in key.bytes() {
            h = (h ^ b as u64).wrapping_mul(0x100000001B3);
            h ^= h >> 29;
        }
        let mut r = Rng(h);
        r.next();
        r
    }
    pub fn next(&mut self) -> u64 {
        self.0 = self.0.wrapping_add(0x9E3779B97F4A7C15);
        let mut z = self.0;
        z = (z ^ (z >> 30)).wrapping_mul(0xBF58476D1CE4E5B9);
        z = (z ^ (z >> 27)).wrapping_mul(0x94D049BB133111EB);
        z ^ (z >> 31)
    }
    pub fn below(&mut self, n: usize) -> usize {
        if n == 0 {
            0
        } else {
            (self.next() % n as u64) as usize
        }
    }
    pub fn range(&mut self, lo: i64, hi: i64) -> i64 {
        lo + (self.next() % ((hi - lo + 1) as u64)) as i64
    }
    pub fn chance(&mut self, num: u64, den: u64) -> bool {
        self.next() % den < num
    }
    pub fn pick<'a, T>(&mut self, v: &'a [T]) -> &'a T {
        &v[self.below(v.len())]
    }
}

pub fn hash64(s: &str) -> u64 {
    let mut h: u64 = 0xcbf29ce484222325;
    for b in s.bytes() {
        h ^= b as u64;
        h = h.wrapping_mul(0x100000001b3);
    }
    h ^ (h >> 32)
}
pub fn hash_bytes(s: &[u8]) -> u64 {
    let mut h: u64 = 0xcbf29ce484222325;
    for b in s {
        h ^= *b as u64;
        h = h.wrapping_mul(0x100000001b3);
    }
    h ^ (h >> 32)
}

// ---------------------------------------------------------------------------------------------
// JSON
// ---------------------------------------------------------------------------------------------
#[derive(Clone, Debug, PartialEq)]
pub enum J {
    Null,
    Bool(bool),
    Int(i64),
    Num(f64),
    Str(String),
    Arr(Vec<J>),
    Obj(Vec<(String, J)>),
}
impl J {
    pub fn s<T: AsRef<str>>(x: T) -> J {
        J::Str(x.as_ref().to_string())
    }
    pub fn obj(v: Vec<(&str, J)>) -> J {
        J::Obj(v.into_iter().map(|(k, v)| (k.to_string(), v)).collect())
    }
    pub fn strs<T: AsRef<str>>(v: &[T]) -> J {
        J::Arr(v.iter().map(|x| J::s(x)).collect())
    }
    pub fn get(&self, k: &str) -> Option<&J> {
        match self {
            J::Obj(v) => v.iter().find(|(a, _)| a == k).map(|(_, b)| b),
            _ => None,
        }
    }
    pub fn as_str(&self) -> Option<&str> {
        match self {
            J::Str(s) => Some(s),
            _ => None,
        }
    }
    pub fn as_i64(&self) -> Option<i64> {
        match self {
            J::Int(i) => Some(*i),
            J::Num(f) => Some(*f as i64),
            _ => None,
        }
    }
    pub fn as_arr(&self) -> Option<&Vec<J>> {
        match self {
            J::Arr(v) => Some(v),
            _ => None,
        }
    }
    pub fn dump(&self) -> String {
        let mut s = String::new();
        self.write(&mut s);
        s
    }
    fn write(&self, o: &mut String) {
        match self {
            J::Null => o.push_str("null"),
            J::Bool(b) => o.push_str(if *b { "true" } else { "false" }),
            J::Int(i) => {
                let _ = write!(o, "{}", i);
            },
            J::Num(f) => {
                if f.is_finite() {
                    let _ = write!(o, "{}", f);
                } else {
                    o.push_str("null")
                }
            },
            J::Str(s) => esc(s, o),
            J::Arr(v) => {
                o.push('[');
                for (i, x) in v.iter().enumerate() {
                    if i > 0 {
                        o.push(',');
                    }
                    x.write(o);
                }
                o.push(']');
            },
            J::Obj(v) => {
                o.push('{');
                for (i, (k, x)) in v.iter().enumerate() {
                    if i > 0 {
                        o.push(',');
                    }
                    esc(k, o);
                    o.push(':');
                    x.write(o);
                }
                o.push('}');
            },
        }
    }
    pub fn parse(s: &str) -> Result<J, String> {
        let b = s.as_bytes();
        let mut i = 0;
        let v = parse_val(b, &mut i)?;
        skip_ws(b, &mut i);
        if i != b.len() {
            return Err(format!("trailing data at {}", i));
        }
        Ok(v)
    }
}
fn esc(s: &str, o: &mut String) {
    o.push('"');
    for c in s.chars() {
        match c {
            '"' => o.push_str("\\\""),
            '\\' => o.push_str("\\\\"),
            '\n' => o.push_str("\\n"),
            '\r' => o.push_str("\\r"),
            '\t' => o.push_str("\\t"),
            c if (c as u32) < 0x20 => {
                let _ = write!(o, "\\u{:04x}", c as u32);
            },
            c => o.push(c),
        }
    }
    o.push('"');
}
fn skip_ws(b: &[u8], i: &mut usize) {
    while *i < b.len() && (b[*i] == b' ' || b[*i] == b'\n' || b[*i] == b'\t' || b[*i] == b'\r') {
        *i += 1;
    }
}
fn parse_val(b: &[u8], i: &mut usize) -> Result<J, String> {
    skip_ws(b, i);
    if *i >= b.len() {
        return Err("eof".into());
    }
    match b[*i] {
        b'{' => {
            *i += 1;
            let mut v = vec![];
            loop {
                skip_ws(b, i);
                if *i < b.len() && b[*i] == b'}' {
                    *i += 1;
                    break;
                }
                let k = match parse_val(b, i)? {
                    J::Str(s) => s,
                    _ => return Err("key".into()),
                };
                skip_ws(b, i);
                if *i >= b.len() || b[*i] != b':' {
                    return Err("colon".into());
                }
                *i += 1;
                let x = parse_val(b, i)?;
                v.push((k, x));
                skip_ws(b, i);
                if *i < b.len() && b[*i] == b',' {
                    *i += 1;
                }
            }
            Ok(J::Obj(v))
        },
        b'[' => {
            *i += 1;
            let mut v = vec![];
            loop {
                skip_ws(b, i);
                if *i < b.len() && b[*i] == b']' {
                    *i += 1;
                    break;
                }
                v.push(parse_val(b, i)?);
                skip_ws(b, i);
                if *i < b.len() && b[*i] == b',' {
                    *i += 1;
                }
            }
            Ok(J::Arr(v))
        },
        b'"' => {
            *i += 1;
            let mut out: Vec<u8> = vec![];
            while *i < b.len() && b[*i] != b'"' {
                if b[*i] == b'\\' {
                    *i += 1;
                    match b[*i] {
                        b'n' => out.push(b'\n'),
                        b'r' => out.push(b'\r'),
                        b't' => out.push(b'\t'),
                        b'u' => {
                            let h = std::str::from_utf8(&b[*i + 1..*i + 5]).map_err(|e| e.to_string())?;
                            let c = u32::from_str_radix(h, 16).map_err(|e| e.to_string())?;
                            let mut buf = [0u8; 4];
                            out.extend_from_slice(char::from_u32(c).unwrap_or('?').encode_utf8(&mut buf).as_bytes());
                            *i += 4;
                        },
                        c => out.push(c),
                    }
                    *i += 1;
                } else {
                    out.push(b[*i]);
                    *i += 1;
                }
            }
            *i += 1;
            Ok(J::Str(String::from_utf8_lossy(&out).to_string()))
        },
        b't' => {
            *i += 4;
            Ok(J::Bool(true))
        },
        b'f' => {
            *i += 5;
            Ok(J::Bool(false))
        },
        b'n' => {
            *i += 4;
            Ok(J::Null)
        },
        _ => {
            let st = *i;
            while *i < b.len() && (b[*i] == b'-' || b[*i] == b'+' || b[*i] == b'.' || b[*i] == b'e' || b[*i] == b'E' || b[*i].is_ascii_digit()) {
                *i += 1;
            }
            let t = std::str::from_utf8(&b[st..*i]).map_err(|e| e.to_string())?;
            if let Ok(x) = t.parse::<i64>() {
                Ok(J::Int(x))
            } else {
                t.parse::<f64>().map(J::Num).map_err(|e| format!("num {:?}: {}", t, e))
            }
        },
    }
}

// ---------------------------------------------------------------------------------------------
// Report (what one shard observed)
// ---------------------------------------------------------------------------------------------
#[derive(Default)]
pub struct Report {
    pub evals: u64,
    pub keys: HashSet<u64>,                           // distinct non-trivial classes
    pub viols: BTreeMap<String, (u64, J)>,            // signature -> (count, first witness)
    pub samples: Vec<J>,
    pub counters: BTreeMap<String, u64>,
    pub inconclusive: BTreeSet<String>,
    pub exhaustive: bool,
    pub notes: Vec<String>,
    pub max_samples: usize,
}
impl Report {
    pub fn new() -> Report {
        Report { max_samples: 6, exhaustive: true, ..Default::default() }
    }
    #[inline]
    pub fn eval(&mut self) {
        self.evals += 1;
        PROGRESS.fetch_add(1, Ordering::Relaxed);
    }
    #[inline]
    pub fn key(&mut self, k: u64) {
        self.keys.insert(k);
    }
    pub fn key_str(&mut self, k: &str) {
        self.keys.insert(hash64(k));
    }
    pub fn count(&mut self, name: &str, n: u64) {
        *self.counters.entry(name.to_string()).or_insert(0) += n;
    }
    pub fn violation(&mut self, sig: &str, witness: J) {
        let e = self.viols.entry(sig.to_string()).or_insert((0, witness));
        e.0 += 1;
    }
    pub fn sample(&mut self, s: J) {
        if self.samples.len() < self.max_samples {
            self.samples.push(s);
        }
    }
    pub fn want_sample(&self) -> bool {
        self.samples.len() < self.max_samples
    }
    pub fn inconclusive(&mut self, s: &str) {
        if self.inconclusive.len() < 50 {
            self.inconclusive.insert(s.to_string());
        }
    }
    pub fn to_json(&self) -> J {
        let mut keys: Vec<u64> = self.keys.iter().cloned().collect();
        keys.sort();
        J::obj(vec![
            ("evals", J::Int(self.evals as i64)),
            ("keys", J::Arr(keys.iter().map(|k| J::s(format!("{:x}", k))).collect())),
            (
                "viols",
                J::Arr(
                    self.viols
                        .iter()
                        .map(|(s, (c, w))| J::obj(vec![("sig", J::s(s)), ("count", J::Int(*c as i64)), ("witness", w.clone())]))
                        .collect(),
                ),
            ),
            ("samples", J::Arr(self.samples.clone())),
            ("counters", J::Obj(self.counters.iter().map(|(k, v)| (k.clone(), J::Int(*v as i64))).collect())),
            ("inconclusive", J::Arr(self.inconclusive.iter().map(J::s).collect())),
            ("exhaustive", J::Bool(self.exhaustive)),
            ("notes", J::Arr(self.notes.iter().map(J::s).collect())),
        ])
    }
    pub fn merge_json(&mut self, j: &J) {
        self.evals += j.get("evals").and_then(|x| x.as_i64()).unwrap_or(0) as u64;
        if let Some(a) = j.get("keys").and_then(|x| x.as_arr()) {
            for k in a {
                if let Some(s) = k.as_str() {
                    if let Ok(v) = u64::from_str_radix(s, 16) {
                        self.keys.insert(v);
                    }
                }
            }
        }
        if let Some(a) = j.get("viols").and_then(|x| x.as_arr()) {
            for v in a {
                let sig = v.get("sig").and_then(|x| x.as_str()).unwrap_or("?").to_string();
                let c = v.get("count").and_then(|x| x.as_i64()).unwrap_or(1) as u64;
                let w = v.get("witness").cloned().unwrap_or(J::Null);
                let e = self.viols.entry(sig).or_insert((0, w));
                e.0 += c;
            }
        }
        if let Some(a) = j.get("samples").and_then(|x| x.as_arr()) {
            for s in a.iter().take(3) {
                if self.samples.len() < self.max_samples.max(8) {
                    self.samples.push(s.clone());
                }
            }
        }
        if let Some(J::Obj(v)) = j.get("counters") {
            for (k, x) in v {
                *self.counters.entry(k.clone()).or_insert(0) += x.as_i64().unwrap_or(0) as u64;
            }
        }
        if let Some(a) = j.get("inconclusive").and_then(|x| x.as_arr()) {
            for s in a {
                if let Some(s) = s.as_str() {
                    self.inconclusive.insert(s.to_string());
                }
            }
        }
        if let Some(J::Bool(false)) = j.get("exhaustive") {
            self.exhaustive = false;
        }
        if let Some(a) = j.get("notes").and_then(|x| x.as_arr()) {
            for s in a {
                if let Some(s) = s.as_str() {
                    if !self.notes.iter().any(|n| n == s) {
                        self.notes.push(s.to_string());
                    }
                }
            }
        }
    }
}

// ---------------------------------------------------------------------------------------------
// Case tracking + watchdog. A monitored call is bracketed by set_case(); the watchdog thread turns
// "no progress while burning CPU" into a hang record and "no progress, no CPU" into a blocked record.
// ---------------------------------------------------------------------------------------------
pub static PROGRESS: AtomicU64 = AtomicU64::new(0);
pub static CASE: Mutex<(String, String)> = Mutex::new((String::new(), String::new()));
pub static STALL_OUT: Mutex<Option<String>> = Mutex::new(None);
pub static STALL_FILE: Mutex<Option<std::fs::File>> = Mutex::new(None);
pub static WATCHDOG_PAUSED: AtomicBool = AtomicBool::new(false);

/// sig: the signature a hang in this case gets, detail: replayable description
pub fn set_case(sig: &str, detail: &str) {
    if let Ok(mut c) = CASE.lock() {
        c.0.clear();
        c.0.push_str(sig);
        c.1.clear();
        c.1.push_str(detail);
    }
    PROGRESS.fetch_add(1, Ordering::Relaxed);
}
pub fn progress() {
    PROGRESS.fetch_add(1, Ordering::Relaxed);
}

fn process_cpu_secs() -> f64 {
    let mut ts = libc::timespec { tv_sec: 0, tv_nsec: 0 };
    unsafe { libc::clock_gettime(libc::CLOCK_PROCESS_CPUTIME_ID, &mut ts) };
    ts.tv_sec as f64 + ts.tv_nsec as f64 * 1e-9
}

pub fn write_stall_and_exit(kind: &str) -> ! {
    let (sig, detail) = match CASE.try_lock() {
        Ok(c) => c.clone(),
        Err(_) => ("?".to_string(), "?".to_string()),
    };
    let j = J::obj(vec![("kind", J::s(kind)), ("sig", J::s(&sig)), ("detail", J::s(&detail))]);
    let mut written = false;
    if let Ok(mut f) = STALL_FILE.try_lock() {
        if let Some(f) = f.as_mut() {
            use std::io::Write;
            written = f.write_all(j.dump().as_bytes()).is_ok();
            let _ = f.flush();
        }
    }
    if !written {
        if let Ok(p) = STALL_OUT.lock() {
            if let Some(p) = p.as_ref() {
                let _ = std::fs::write(p, j.dump());
            }
        }
    }
    unsafe { libc::_exit(3) }
}

/// A worker that dies by SIGSEGV / SIGBUS / SIGABRT inside a monitored call (stack exhaustion by unbounded recursion is
/// the realistic way there: Rust's own guard-page handler reports it and aborts) leaves a record of the case it was in,
/// like a hang does. Best effort: the handler runs on the alternate stack std installs for its threads and is not
/// strictly async-signal-safe; if it cannot write, the parent sees a worker that died without a report, which is a
/// harness error and never a verdict. Only armed while a case asks for it (CRASH_ATTRIBUTION), so that a crash of
/// the harness itself is not blamed on the code under test.
pub static CRASH_ATTRIBUTION: AtomicBool = AtomicBool::new(false);
extern "C" fn on_fatal_signal(_sig: libc::c_int) {
    if CRASH_ATTRIBUTION.load(Ordering::SeqCst) {
        write_stall_and_exit("crash");
    }
    unsafe { libc::_exit(4) }
}
pub fn install_crash_handler() {
    unsafe {
        for sig in [libc::SIGABRT, libc::SIGBUS] {
            let mut sa: libc::sigaction = std::mem::zeroed();
            sa.sa_sigaction = on_fatal_signal as usize;
            sa.sa_flags = libc::SA_ONSTACK;
            libc::sigemptyset(&mut sa.sa_mask);
            libc::sigaction(sig, &sa, std::ptr::null_mut());
        }
    }
}

/// cpu_limit: CPU seconds one case may burn; block_limit: wall seconds with (almost) no CPU use
pub fn start_watchdog(stall_out: String, cpu_limit: f64, block_limit: f64) {
    *STALL_OUT.lock().unwrap() = Some(stall_out);
    std::thread::spawn(move || {
        let mut last = PROGRESS.load(Ordering::Relaxed);
        let mut cpu_at = process_cpu_secs();
        let mut wall_at = std::time::Instant::now();
        loop {
            std::thread::sleep(std::time::Duration::from_millis(500));
            let now = PROGRESS.load(Ordering::Relaxed);
            if now != last || WATCHDOG_PAUSED.load(Ordering::Relaxed) {
                last = now;
                cpu_at = process_cpu_secs();
                wall_at = std::time::Instant::now();
                continue;
            }
            let cpu = process_cpu_secs() - cpu_at;
            let wall = wall_at.elapsed().as_secs_f64();
            if cpu >= cpu_limit {
                write_stall_and_exit("hang");
            }
            if wall >= block_limit && cpu < 1.0 {
                write_stall_and_exit("blocked");
            }
            if wall >= block_limit * 3.0 {
                write_stall_and_exit("stall-inconclusive");
            }
        }
    });
}

// ---------------------------------------------------------------------------------------------
// Counting allocator: unbounded allocation inside one case is reported with the case, not as an abort
// ---------------------------------------------------------------------------------------------
pub struct CountingAlloc;
pub static LIVE: AtomicUsize = AtomicUsize::new(0);
pub static LIVE_LIMIT: AtomicUsize = AtomicUsize::new(usize::MAX);
static IN_BLOWUP: AtomicBool = AtomicBool::new(false);
unsafe impl GlobalAlloc for CountingAlloc {
    unsafe fn alloc(&self, l: Layout) -> *mut u8 {
        let live = LIVE.fetch_add(l.size(), Ordering::Relaxed) + l.size();
        if live > LIVE_LIMIT.load(Ordering::Relaxed) && !IN_BLOWUP.swap(true, Ordering::SeqCst) {
            LIVE_LIMIT.store(usize::MAX, Ordering::SeqCst);
            write_stall_and_exit("memory-blowup");
        }
        System.alloc(l)
    }
    unsafe fn dealloc(&self, p: *mut u8, l: Layout) {
        LIVE.fetch_sub(l.size(), Ordering::Relaxed);
        System.dealloc(p, l)
    }
    unsafe fn realloc(&self, p: *mut u8, l: Layout, new: usize) -> *mut u8 {
        if new > l.size() {
            let live = LIVE.fetch_add(new - l.size(), Ordering::Relaxed) + new - l.size();
            if live > LIVE_LIMIT.load(Ordering::Relaxed) && !IN_BLOWUP.swap(true, Ordering::SeqCst) {
                LIVE_LIMIT.store(usize::MAX, Ordering::SeqCst);
                write_stall_and_exit("memory-blowup");
            }
        } else {
            LIVE.fetch_sub(l.size() - new, Ordering::Relaxed);
        }
        System.realloc(p, l, new)
    }
}

// ---------------------------------------------------------------------------------------------
// Panic capture with a silent hook
// ---------------------------------------------------------------------------------------------
pub static LAST_PANIC_LOC: Mutex<String> = Mutex::new(String::new());
pub fn silence_panics() {
    std::panic::set_hook(Box::new(|info| {
        if let Some(l) = info.location() {
            if let Ok(mut g) = LAST_PANIC_LOC.try_lock() {
                *g = format!("{}:{}", l.file(), l.line());
            }
        }
    }));
}
pub fn last_panic_loc() -> String {
    LAST_PANIC_LOC.lock().map(|g| g.clone()).unwrap_or_default()
}
pub fn catch<R>(f: impl FnOnce() -> R) -> Result<R, String> {
    match std::panic::catch_unwind(std::panic::AssertUnwindSafe(f)) {
        Ok(r) => Ok(r),
        Err(e) => {
            if let Some(s) = e.downcast_ref::<&str>() {
                Err(s.to_string())
            } else if let Some(s) = e.downcast_ref::<String>() {
                Err(s.clone())
            } else {
                Err("<non-string panic>".to_string())
            }
        },
    }
}

pub struct Ctx {
    pub prop: String,
    pub thorough: bool,
    pub seed: u64,
    pub shard: usize,
    pub shards: usize,
}
impl Ctx {
    pub fn rng(&self, purpose: &str) -> Rng {
        Rng::new(self.seed, &format!("{}/{}/{}", self.prop, self.shard, purpose))
    }
    /// true when item i belongs to this shard
    #[inline]
    pub fn mine(&self, i: u64) -> bool {
        (i % self.shards as u64) as usize == self.shard
    }
}
