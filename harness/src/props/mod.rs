// Property registry
use crate::infra::*;

pub mod pure;
pub mod envp;
pub mod memfs;
pub mod wrap;
pub mod macros;
pub mod data;
pub mod treeops;
pub mod walk;
pub mod hostile;
pub mod absprop;
pub mod differ;
pub mod conc;

pub struct Prop {
    pub id: &'static str,
    pub run: fn(&Ctx, &mut Report),
    pub tools: Option<fn(&Ctx, &mut Report) -> Vec<J>>,
    pub rule: &'static str,
    pub assumptions: &'static [&'static str],
    pub shards_quick: usize,
    pub shards_thorough: usize,
    pub budget_quick_s: u64,
    pub budget_thorough_s: u64,
    pub min_evals: u64,
    pub exhaustive_capable: bool,
}

pub fn registry() -> Vec<Prop> {
    let mut v = vec![];
    v.extend(pure::props());
    v.extend(envp::props());
    v.extend(memfs::props());
    v.extend(wrap::props());
    v.extend(macros::props());
    v.extend(data::props());
    v.extend(treeops::props());
    v.extend(walk::props());
    v.extend(hostile::props());
    v.extend(absprop::props());
    v.extend(differ::props());
    v.extend(conc::props());
    v
}

pub fn envprobe(args: &[String]) {
    envp::envprobe(args)
}
