// C20: the assert_vfs_* macros panic iff their documented predicate / postcondition is false
use std::path::PathBuf;

use rivia::prelude::*;

use super::{memfs::*, Prop};
use crate::{fsops::*, infra::*, model::*, stdside::*};

pub fn props() -> Vec<Prop> {
    vec![Prop {
        id: "C20",
        run: c20,
        tools: None,
        rule: "for every reference state of the C01 sweep (names {a,b}, depth 2, up to a state cap), every path of the namespace (plus '/', an absent path and the empty path) and each of the 19 macros with data/target variants (equal, different, suffix-only-equal): the macro runs under catch_unwind on Memfs, on Vfs::Memfs and (in-domain states) on a Stdfs sandbox materialised with std::fs; for checking macros the panic/no-panic outcome must equal the documented predicate evaluated on the reference tree and the message must name the macro and the path; for acting macros no-panic must coincide with the documented postcondition evaluated on the hook snapshot / disk observer after the call. testing::capture_panic is exercised separately (nested and concurrent captures). distinct_nontrivial = distinct (macro, backend, argument class, variant, expected outcome) tuples. Later addition: remove / remove_all are also run on Stdfs states with dangling links and links to links (their postcondition is read off the disk observation alone).",
        assumptions: &["predicate / postcondition of each macro is taken from its own doc comment including the documented exemptions (mkfile/symlink: 'if it exists no change is made'; remove: its three listed failures)", "'a message naming the path' is read as: the absolute path the argument resolves to - what every failure branch of every macro prints on the pinned code - and the argument as given only when it does not resolve at all"],
        shards_quick: 8,
        shards_thorough: 16,
        budget_quick_s: 240,
        budget_thorough_s: 1200,
        min_evals: 20_000,
        exhaustive_capable: true,
    }]
}

#[derive(Clone, Copy, Debug, PartialEq)]
enum M {
    Exists,
    NoExists,
    IsDir,
    NoDir,
    IsFile,
    NoFile,
    IsSymlink,
    NoSymlink,
    ReadAll,
    Readlink,
    ReadlinkAbs,
    MkdirP,
    MkdirM,
    Mkfile,
    WriteAll,
    Copyfile,
    Symlink,
    Remove,
    RemoveAll,
}
const ALL: [M; 19] = [
    M::Exists,
    M::NoExists,
    M::IsDir,
    M::NoDir,
    M::IsFile,
    M::NoFile,
    M::IsSymlink,
    M::NoSymlink,
    M::ReadAll,
    M::Readlink,
    M::ReadlinkAbs,
    M::MkdirP,
    M::MkdirM,
    M::Mkfile,
    M::WriteAll,
    M::Copyfile,
    M::Symlink,
    M::Remove,
    M::RemoveAll,
];
fn mname(m: M) -> &'static str {
    match m {
        M::Exists => "assert_vfs_exists!",
        M::NoExists => "assert_vfs_no_exists!",
        M::IsDir => "assert_vfs_is_dir!",
        M::NoDir => "assert_vfs_no_dir!",
        M::IsFile => "assert_vfs_is_file!",
        M::NoFile => "assert_vfs_no_file!",
        M::IsSymlink => "assert_vfs_is_symlink!",
        M::NoSymlink => "assert_vfs_no_symlink!",
        M::ReadAll => "assert_vfs_read_all!",
        M::Readlink => "assert_vfs_readlink!",
        M::ReadlinkAbs => "assert_vfs_readlink_abs!",
        M::MkdirP => "assert_vfs_mkdir_p!",
        M::MkdirM => "assert_vfs_mkdir_m!",
        M::Mkfile => "assert_vfs_mkfile!",
        M::WriteAll => "assert_vfs_write_all!",
        M::Copyfile => "assert_vfs_copyfile!",
        M::Symlink => "assert_vfs_symlink!",
        M::Remove => "assert_vfs_remove!",
        M::RemoveAll => "assert_vfs_remove_all!",
    }
}

fn invoke<V: VirtualFileSystem>(v: &V, m: M, p: &str, q: &str, data: &str, mode: u32) -> Result<(), String> {
    let qp = PathBuf::from(q);
    catch(|| match m {
        M::Exists => {
            assert_vfs_exists!(v, p);
        },
        M::NoExists => {
            assert_vfs_no_exists!(v, p);
        },
        M::IsDir => {
            assert_vfs_is_dir!(v, p);
        },
        M::NoDir => {
            assert_vfs_no_dir!(v, p);
        },
        M::IsFile => {
            assert_vfs_is_file!(v, p);
        },
        M::NoFile => {
            assert_vfs_no_file!(v, p);
        },
        M::IsSymlink => {
            assert_vfs_is_symlink!(v, p);
        },
        M::NoSymlink => {
            assert_vfs_no_symlink!(v, p);
        },
        M::ReadAll => {
            assert_vfs_read_all!(v, p, data.to_string());
        },
        M::Readlink => {
            assert_vfs_readlink!(v, p, qp);
        },
        M::ReadlinkAbs => {
            assert_vfs_readlink_abs!(v, p, &qp);
        },
        M::MkdirP => {
            assert_vfs_mkdir_p!(v, p);
        },
        M::MkdirM => {
            assert_vfs_mkdir_m!(v, p, mode);
        },
        M::Mkfile => {
            assert_vfs_mkfile!(v, p);
        },
        M::WriteAll => {
            assert_vfs_write_all!(v, p, data);
        },
        M::Copyfile => {
            assert_vfs_copyfile!(v, p, q);
        },
        M::Symlink => {
            assert_vfs_symlink!(v, p, q);
        },
        M::Remove => {
            assert_vfs_remove!(v, p);
        },
        M::RemoveAll => {
            assert_vfs_remove_all!(v, p);
        },
    })
}

fn is_file(t: &NTree, a: &str) -> bool {
    matches!(t.nodes.get(a), Some(NNode { kind: NKind::File(_), .. }))
}
fn is_link(t: &NTree, a: &str) -> bool {
    matches!(t.nodes.get(a), Some(NNode { kind: NKind::Link { .. }, .. }))
}
fn content(t: &NTree, a: &str) -> Option<Vec<u8>> {
    match t.nodes.get(a) {
        Some(NNode { kind: NKind::File(d), .. }) => Some(d.clone()),
        _ => None,
    }
}

/// Some(true) = the macro must pass, Some(false) = it must panic, None = judged on the post state instead
fn checking_expectation(m: M, pre: &NTree, a: Option<&str>, q_abs: Option<&str>, q_raw: &str, data: &str) -> Option<bool> {
    let a = match a {
        Some(a) => a,
        None => return Some(false), // abs() of the path fails: every macro reports that
    };
    Some(match m {
        M::Exists => pre.nodes.contains_key(a),
        M::NoExists => !pre.nodes.contains_key(a),
        M::IsDir => pre.is_real_dir(a),
        M::NoDir => !pre.is_real_dir(a),
        M::IsFile => is_file(pre, a),
        M::NoFile => !is_file(pre, a),
        M::IsSymlink => is_link(pre, a),
        M::NoSymlink => !is_link(pre, a),
        M::ReadAll => content(pre, a).map(|d| d == data.as_bytes()).unwrap_or(false),
        M::Readlink => match pre.nodes.get(a) {
            Some(NNode { kind: NKind::Link { target, .. }, .. }) => ref_relative(target, &parent_of(a).unwrap_or_else(|| "/".into())) == q_raw,
            _ => false,
        },
        M::ReadlinkAbs => match (pre.nodes.get(a), q_abs) {
            (Some(NNode { kind: NKind::Link { target, .. }, .. }), Some(q)) => target == q,
            _ => false,
        },
        _ => return None,
    })
}

/// documented postcondition of an acting macro on the post state
fn postcondition(m: M, pre: &NTree, post: &NTree, a: &str, q_abs: Option<&str>, data: &str, mode: u32) -> bool {
    match m {
        M::MkdirP => post.is_real_dir(a),
        M::MkdirM => post.is_real_dir(a) && post.nodes.get(a).map(|n| n.mode == mode).unwrap_or(false),
        M::Mkfile => is_file(post, a),
        M::WriteAll => content(post, a).map(|d| d == data.as_bytes()).unwrap_or(false),
        M::Copyfile => match (content(pre, a), q_abs) {
            (Some(src), Some(q)) => content(post, q).map(|d| d == src).unwrap_or(false) && content(post, a) == Some(src),
            _ => false,
        },
        M::Symlink => is_link(post, a),
        M::Remove | M::RemoveAll => !post.nodes.contains_key(a),
        _ => true,
    }
}

struct Case<'a> {
    m: M,
    p: &'a str,
    q: &'a str,
    data: &'a str,
    mode: u32,
    variant: &'a str,
}

fn judge(backend: &str, c: &Case, pre: &NTree, post: &NTree, changed: bool, a: Option<&str>, q_abs: Option<&str>, r: &Result<(), String>, hist: &[Op], rep: &mut Report, root: &str) {
    rep.eval();
    let name = mname(c.m);
    let cls = match a {
        Some(a) => pre.class_of(a).to_string(),
        None => "unresolvable".to_string(),
    };
    let wit = |exp: &str| {
        J::obj(vec![
            ("backend", J::s(backend)),
            ("history", J::Arr(hist.iter().map(|o| J::s(o.describe())).collect())),
            ("pre_state", pre.to_json()),
            ("macro", J::s(format!("{}(vfs, {:?}{})", name, c.p, if c.q.is_empty() && c.data.is_empty() { String::new() } else { format!(", {:?}{:?}", c.q, c.data) }))),
            ("expected", J::s(exp)),
            ("got", J::s(match r {
                Ok(()) => "passed".to_string(),
                Err(m) => format!("panicked: {}", m.replace(root, "")),
            })),
        ])
    };
    let passed = r.is_ok();
    match checking_expectation(c.m, pre, a, q_abs, c.q, c.data) {
        Some(expect_pass) => {
            rep.key_str(&format!("{}|{}|{}|{}|{}", name, backend, cls, c.variant, expect_pass));
            if expect_pass != passed {
                rep.violation(
                    &format!("macro:{}({},{}{}):{}→{}", name, backend, cls, c.variant, if expect_pass { "pass" } else { "panic" }, if passed { "pass" } else { "panic" }),
                    wit(if expect_pass { "predicate true: must pass" } else { "predicate false: must panic" }),
                );
            } else if let Err(msg) = r {
                let shown_abs = a.map(|a| format!("{:?}", if root.is_empty() { a.to_string() } else { format!("{}{}", root, if a == "/" { "" } else { a }) })).unwrap_or_default();
                // for a readlink mismatch the macros print the value that was read: that is the path the predicate is about
                let read_value = match (c.m, a.and_then(|a| pre.nodes.get(a))) {
                    (M::Readlink, Some(NNode { kind: NKind::Link { target, .. }, .. })) => {
                        let mut v = ref_relative(target, &parent_of(a.unwrap()).unwrap_or_else(|| "/".into()));
                        if v.starts_with('/') && !root.is_empty() {
                            v = format!("{}{}", root, if v == "/" { "" } else { v.as_str() });
                        }
                        msg.contains(&format!("{:?}", v))
                    },
                    (M::ReadlinkAbs, Some(NNode { kind: NKind::Link { target, .. }, .. })) => {
                        msg.contains(&format!("{:?}", if root.is_empty() { target.clone() } else { format!("{}{}", root, if target == "/" { "" } else { target }) }))
                    },
                    _ => false,
                };
                let names_path = read_value || (!shown_abs.is_empty() && msg.contains(&shown_abs)) || (shown_abs.is_empty() && msg.contains(&format!("{:?}", c.p))) || msg.contains(&format!("{:?}", c.q));
                if !msg.contains(name) {
                    rep.violation(&format!("macro:{}:message-names-macro→other-name", name), wit("panic message contains the macro's own name"));
                } else if !names_path {
                    rep.violation(&format!("macro:{}:message-names-path→missing", name), wit("panic message contains {:?} of the path"));
                }
            }
            if changed {
                rep.violation(&format!("macro:{}({},{}):checking-macro-changes-nothing→changed", name, backend, cls), wit("state unchanged"));
            }
        },
        None => {
            let a = a.unwrap();
            let holds = postcondition(c.m, pre, post, a, q_abs, c.data, c.mode);
            rep.key_str(&format!("{}|{}|{}|{}|{}", name, backend, cls, c.variant, holds));
            if holds != passed {
                rep.violation(
                    &format!(
                        "macro:{}({},{}{}):{}→{}",
                        name,
                        backend,
                        cls,
                        c.variant,
                        if holds { "postcondition-holds+pass" } else { "postcondition-fails+panic" },
                        if passed { "pass" } else { "panic" }
                    ),
                    wit(if holds { "postcondition holds after the call: must not panic" } else { "postcondition does not hold after the call: must panic" }),
                );
            } else if let Err(msg) = r {
                if !msg.contains(name) {
                    rep.violation(&format!("macro:{}:message-names-macro→other-name", name), wit("panic message contains the macro's own name"));
                }
            }
        },
    }
}

fn cases_for<'a>(m: M, p: &'a str, others: &'a [String]) -> Vec<Case<'a>> {
    let mut v = vec![];
    let base = |variant: &'a str, q: &'a str, data: &'a str, mode: u32| Case { m, p, q, data, mode, variant };
    match m {
        M::ReadAll => {
            v.push(base(",different-data", "", "other data", 0));
        },
        M::WriteAll => {
            v.push(base(",new-data", "", "fresh", 0));
            v.push(base(",empty-data", "", "", 0));
        },
        M::MkdirM => {
            v.push(base(",mode=40711", "", "", 0o40711));
            v.push(base(",mode=40755", "", "", 0o40755));
            // the same permissions plus a sticky / set-group-id bit: on a directory that exists with 0755 the
            // postcondition is false although the rwx part agrees
            v.push(base(",mode=41755", "", "", 0o41755));
            v.push(base(",mode=42755", "", "", 0o42755));
        },
        M::Readlink | M::ReadlinkAbs | M::Copyfile | M::Symlink => {
            for q in others {
                v.push(base("", q.as_str(), "", 0));
            }
        },
        _ => v.push(base("", "", "", 0)),
    }
    v
}

fn c20(ctx: &Ctx, rep: &mut Report) {
    std::env::set_var("HOME", HOME);
    let names = ["a", "b"];
    let paths = namespace(&names, 2);
    let (muts, _) = sweep_alphabet(&paths, false);
    let cap = if ctx.thorough { 12_000 } else { 600 };
    let (states, complete) = enumerate_states(&muts, cap);
    if !complete {
        rep.exhaustive = false;
        if ctx.shard == 0 {
            rep.notes.push(format!("state enumeration stopped at the cap of {} reference states", cap));
        }
    }
    let (sb, root) = Sandbox::nested("c20");
    let mut args: Vec<String> = vec!["/".to_string()];
    args.extend(paths.iter().cloned());
    args.push("/zz".to_string());
    args.push("".to_string());
    args.push("a".to_string()); // relative spelling
    for (si, (state, hist)) in states.iter().enumerate() {
        if !ctx.mine(si as u64) {
            continue;
        }
        let model = tree_from(state, HOME);
        // second-argument candidates: every path, plus for links the exact readlink values and a suffix-only-equal path
        for p in &args {
            let a = model.abs(p).and_then(|x| x.ok());
            let mut others: Vec<String> = vec!["/a".into(), "/b".into(), "/a/b".into(), "/zz".into()];
            if let Some(a) = &a {
                if let Some(NNode { kind: NKind::Link { target, .. }, .. }) = state.nodes.get(a) {
                    let rel = ref_relative(target, &parent_of(a).unwrap_or_else(|| "/".into()));
                    // spellings that are the same path component-wise but not the text readlink returns
                    others.push(format!("{}/", rel));
                    others.push(format!("{}/.", rel));
                    others.push(rel.replacen('/', "//", 1));
                    others.push(format!("{}//", target));
                    others.push(rel);
                    others.push(target.clone());
                    others.push(format!("/b{}", target)); // target is only a suffix of this
                    others.push(format!("/a{}", target));
                }
            }
            others.sort();
            others.dedup();
            for m in ALL {
                let mut cases = cases_for(m, p, &others);
                let equal_data: Option<String> = a.as_deref().and_then(|a| content(state, a)).and_then(|d| String::from_utf8(d).ok());
                if let (M::ReadAll, Some(d)) = (m, &equal_data) {
                    cases.push(Case { m, p, q: "", data: d.as_str(), mode: 0, variant: ",equal-data" });
                }
                for c in &cases {
                    let q_abs = if c.q.is_empty() { None } else { model.abs(c.q).and_then(|x| x.ok()) };
                    set_case(&format!("macro:{}:returns→stalls", mname(m)), &format!("{:?} {:?} {:?}", hist, p, c.q));
                    // --- Memfs direct and through Vfs
                    for backend in ["memfs", "vfs-memfs"] {
                        let mut ls = LockStep::new(Mode::Model);
                        let mut scratch = Report::new();
                        for op in hist {
                            ls.apply(op, &mut scratch);
                        }
                        if ls.model.t != *state {
                            rep.count("states_not_materialisable", 1);
                            continue;
                        }
                        let r = if backend == "memfs" {
                            invoke(&ls.mem, m, p, c.q, c.data, c.mode)
                        } else {
                            // same instance behind the enum
                            let mem = std::mem::replace(&mut ls.mem, Memfs::new());
                            let v = Vfs::Memfs(mem);
                            let r = invoke(&v, m, p, c.q, c.data, c.mode);
                            if let Vfs::Memfs(x) = v {
                                ls.mem = x;
                            }
                            r
                        };
                        let post = memfs_ntree(&ls.mem.verif_snapshot());
                        judge(backend, c, state, &post, *state != post, a.as_deref(), q_abs.as_deref(), &r, hist, rep, "");
                    }
                    // --- an acting macro "performs the operation": when it passes, the state it leaves is the state
                    // the plain call leaves (twin instances; for copyfile the source's directory gets a mode that is
                    // not the default first, so that what the operation carries over can be told from a default)
                    let plain: Option<Op> = match m {
                        M::MkdirP => Some(Op::MkdirP(p.to_string())),
                        M::MkdirM => Some(Op::MkdirM(p.to_string(), c.mode)),
                        M::Mkfile => Some(Op::Mkfile(p.to_string())),
                        M::WriteAll => Some(Op::WriteAll(p.to_string(), c.data.as_bytes().to_vec())),
                        M::Copyfile => Some(Op::Copy(p.to_string(), c.q.to_string())),
                        M::Symlink => Some(Op::Symlink(p.to_string(), c.q.to_string())),
                        M::Remove => Some(Op::Remove(p.to_string())),
                        M::RemoveAll => Some(Op::RemoveAll(p.to_string())),
                        _ => None,
                    };
                    if let Some(op) = plain {
                        let mk = || {
                            let mut ls = LockStep::new(Mode::Model);
                            let mut scratch = Report::new();
                            for h in hist {
                                ls.apply(h, &mut scratch);
                            }
                            ls
                        };
                        let (sub, twin) = (mk(), mk());
                        if sub.model.t == *state {
                            if m == M::Copyfile {
                                if let Some(par) = a.as_deref().and_then(parent_of).filter(|x| x != "/") {
                                    let deco = Op::ChmodB(par, ChmodO { all: Some(0o750), dirs: None, files: None, sym: None, recurse: Some(false), follow: false });
                                    let _ = exec(&sub.mem, &deco);
                                    let _ = exec(&twin.mem, &deco);
                                }
                            }
                            let r = invoke(&sub.mem, m, p, c.q, c.data, c.mode);
                            let rb = exec(&twin.mem, &op);
                            rep.count("acting_macros_compared_with_the_plain_call", 1);
                            if r.is_ok() && !rb.is_err() {
                                let (sa, sb2) = (memfs_ntree(&sub.mem.verif_snapshot()), memfs_ntree(&twin.mem.verif_snapshot()));
                                if sa != sb2 {
                                    rep.violation(
                                        &format!("macro:{}(memfs):performs-the-operation→state-differs-from-the-plain-call", mname(m)),
                                        J::obj(vec![
                                            ("history", J::Arr(hist.iter().map(|o| J::s(o.describe())).collect())),
                                            ("macro", J::s(format!("{}(vfs, {:?}, {:?}{:?})", mname(m), p, c.q, c.data))),
                                            ("plain_call", J::s(op.describe())),
                                            ("state_after_macro", sa.to_json()),
                                            ("state_after_plain_call", sb2.to_json()),
                                        ]),
                                    );
                                }
                            }
                        }
                    }
                    // --- Stdfs on the in-domain subset (C02's domain clause), absolute spellings only
                    let stays_in_domain = m != M::Symlink || matches!(q_abs.as_deref().and_then(|q| state.nodes.get(q)), Some(NNode { kind: NKind::Dir, .. }) | Some(NNode { kind: NKind::File(_), .. }));
                    // (remove / remove_all have a postcondition that is read off the disk observation alone, so they are
                    // also run on states with dangling links and links to links, where the other macros' predicates
                    // are backend specific)
                    let domain_ok = in_domain_state(state) || matches!(m, M::Remove | M::RemoveAll);
                    if si % 3 == 0 && stays_in_domain && domain_ok && p.starts_with('/') && (c.q.is_empty() || c.q.starts_with('/')) && !through_link(state, a.as_deref()) && !through_link(state, q_abs.as_deref()) {
                        wipe(&root);
                        if let Err(e) = materialise_disk(state, &root) {
                            rep.count("stdfs_materialise_failed", 1);
                            rep.inconclusive(&format!("could not materialise a state on disk: {}", e.replace(&root, "<R>")));
                            continue;
                        }
                        let _ = std::env::set_current_dir(&root);
                        let v = Stdfs::new();
                        let pre_obs = unmap_tree(&disk_ntree(&root), &root, state);
                        let r = invoke(&v, m, &map_path(p, &root), &if c.q.is_empty() { String::new() } else { map_path(c.q, &root) }, c.data, c.mode);
                        let post = unmap_tree(&disk_ntree(&root), &root, state);
                        let pre = strip_owner(state, &post);
                        judge("stdfs", c, &pre, &post, pre_obs != post, a.as_deref(), q_abs.as_deref(), &r, hist, rep, &root);
                    }
                }
            }
        }
        if rep.want_sample() && hist.len() >= 2 {
            rep.sample(J::obj(vec![("state", state.to_json()), ("macros", J::Int(19)), ("paths", J::strs(&args))]));
        }
    }
    if ctx.shard == 0 {
        unreadable_contents(&root, rep);
    }
    capture_panic_checks(ctx, rep);
    drop(sb);
}

/// every symlink resolves to an existing non-link entry
pub fn in_domain_state(t: &NTree) -> bool {
    t.nodes.values().all(|n| match &n.kind {
        NKind::Link { target, .. } => matches!(t.nodes.get(target), Some(NNode { kind: NKind::Dir, .. }) | Some(NNode { kind: NKind::File(_), .. })),
        _ => true,
    })
}
/// the path passes through a symlink as an intermediate component
pub fn through_link(t: &NTree, a: Option<&str>) -> bool {
    let a = match a {
        Some(a) => a,
        None => return false,
    };
    let mut cur = parent_of(a);
    while let Some(p) = cur {
        if matches!(t.nodes.get(&p), Some(NNode { kind: NKind::Link { .. }, .. })) {
            return true;
        }
        cur = parent_of(&p);
    }
    false
}
/// disk tree (real paths) back to virtual keys; owners and the cwd are taken from the reference (not observed here)
fn unmap_tree(d: &NTree, root: &str, reference: &NTree) -> NTree {
    let mut nodes = std::collections::BTreeMap::new();
    for (k, n) in &d.nodes {
        let vk = if k == root { "/".to_string() } else { k[root.len()..].to_string() };
        let mut n = n.clone();
        if let NKind::Link { target, dir } = &n.kind {
            let t = if target == root { "/".to_string() } else if is_under(target, root) { target[root.len()..].to_string() } else { target.clone() };
            n.kind = NKind::Link { target: t, dir: *dir };
            n.mode = LINK_MODE;
        }
        n.uid = OWNER;
        n.gid = OWNER;
        nodes.insert(vk, n);
    }
    NTree { cwd: reference.cwd.clone(), nodes }
}
fn strip_owner(t: &NTree, _like: &NTree) -> NTree {
    let mut t = t.clone();
    for n in t.nodes.values_mut() {
        n.uid = OWNER;
        n.gid = OWNER;
    }
    t
}

/// Files whose bytes read_all cannot return (not UTF-8): the predicate "the file holds this text" is false for every
/// text, the empty one included, so assert_vfs_read_all! panics - naming itself and the path - while the macros that
/// only look at the kind still pass. An empty file and a text file next to it keep their ordinary verdicts.
fn unreadable_contents(root: &str, rep: &mut Report) {
    fn run<V: VirtualFileSystem>(v: &V, backend: &str, dir: &str, rep: &mut Report) {
        let _ = v.mkdir_p(dir);
        let (bin, empty, text) = (format!("{}/bin", dir), format!("{}/empty", dir), format!("{}/text", dir));
        let _ = v.write_all(&bin, [0xffu8, 0xfe, 0x00, 0x80]);
        let _ = v.write_all(&empty, b"");
        let _ = v.write_all(&text, "héllo\n");
        let cases: Vec<(&str, M, &str, &str, bool)> = vec![
            ("binary,empty-text", M::ReadAll, bin.as_str(), "", false),
            ("binary,some-text", M::ReadAll, bin.as_str(), "x", false),
            ("binary,lossy-text", M::ReadAll, bin.as_str(), "\u{fffd}\u{fffd}\u{0}\u{fffd}", false),
            ("binary", M::IsFile, bin.as_str(), "", true),
            ("binary", M::Exists, bin.as_str(), "", true),
            ("binary", M::NoFile, bin.as_str(), "", false),
            ("empty,empty-text", M::ReadAll, empty.as_str(), "", true),
            ("empty,some-text", M::ReadAll, empty.as_str(), "x", false),
            ("text,equal-text", M::ReadAll, text.as_str(), "héllo\n", true),
            ("text,empty-text", M::ReadAll, text.as_str(), "", false),
            ("text,prefix", M::ReadAll, text.as_str(), "héllo", false),
        ];
        for (what, m, p, data, expect_pass) in cases {
            rep.eval();
            let r = invoke(v, m, p, "", data, 0);
            rep.key_str(&format!("{}|{}|contents:{}|{}", mname(m), backend, what, expect_pass));
            let wit = J::obj(vec![
                ("backend", J::s(backend)),
                ("macro", J::s(format!("{}(vfs, {:?}, {:?})", mname(m), p, data))),
                ("file", J::s(what)),
                ("got", J::s(match &r {
                    Ok(()) => "passed".to_string(),
                    Err(m) => format!("panicked: {}", m),
                })),
            ]);
            if r.is_ok() != expect_pass {
                rep.violation(&format!("macro:{}({},contents:{}):{}→{}", mname(m), backend, what, if expect_pass { "pass" } else { "panic" }, if r.is_ok() { "pass" } else { "panic" }), wit);
            } else if let Err(msg) = &r {
                if !msg.contains(mname(m)) {
                    rep.violation(&format!("macro:{}:message-names-macro→other-name", mname(m)), wit);
                } else if !msg.contains(p) {
                    rep.violation(&format!("macro:{}:message-names-path→missing", mname(m)), wit);
                }
            }
        }
    }
    // the acting macro that takes data: bytes that are not text are data like any other - the postcondition (a file
    // holding exactly them) is true afterwards, so it passes, on a new and on an existing file
    fn write_binary<V: VirtualFileSystem>(v: &V, backend: &str, dir: &str, rep: &mut Report) {
        let _ = v.mkdir_p(dir);
        let path = format!("{}/blob", dir);
        let payload: [u8; 5] = [0x00, 0xff, 0xfe, 0x80, 0x41];
        for round in ["absent", "existing"] {
            rep.eval();
            let r = catch(|| {
                assert_vfs_write_all!(v, &path, payload);
            });
            let holds = exec(v, &Op::ReadBytes(path.clone())) == Res::Bytes(payload.to_vec());
            rep.key_str(&format!("assert_vfs_write_all!|{}|contents:binary-payload|{}|{}", backend, round, holds));
            if holds != r.is_ok() {
                rep.violation(
                    &format!("macro:assert_vfs_write_all!({},binary-payload,{}):{}→{}", backend, round, if holds { "postcondition-holds+pass" } else { "postcondition-fails+panic" }, if r.is_ok() { "pass" } else { "panic" }),
                    J::obj(vec![("backend", J::s(backend)), ("macro", J::s(format!("assert_vfs_write_all!(vfs, {:?}, {:?})", path, payload))), ("got", J::s(format!("{:?}", r)))]),
                );
            }
        }
    }
    write_binary(&Memfs::new(), "memfs", "/ub", rep);
    write_binary(&Vfs::memfs(), "vfs-memfs", "/ub", rep);
    run(&Memfs::new(), "memfs", "/u", rep);
    run(&Vfs::memfs(), "vfs-memfs", "/u", rep);
    wipe(root);
    run(&Stdfs::new(), "stdfs", &format!("{}/u", root), rep);
    write_binary(&Stdfs::new(), "stdfs", &format!("{}/ub", root), rep);
}

fn capture_panic_checks(ctx: &Ctx, rep: &mut Report) {
    if ctx.shard != 0 {
        return;
    }
    // message is returned, nested and concurrent captures work, and a panic after the last capture still
    // reaches the (restored) hook: we observe that through our own hook counter
    use std::sync::atomic::{AtomicUsize, Ordering};
    static HOOK_CALLS: AtomicUsize = AtomicUsize::new(0);
    std::panic::set_hook(Box::new(|_| {
        HOOK_CALLS.fetch_add(1, Ordering::SeqCst);
    }));
    rep.eval();
    let r = testing::capture_panic(|| panic!("boom-{}", 1));
    match r {
        Err(e) if e.to_string().contains("boom-1") => {},
        other => rep.violation("capture_panic:message-returned→other", J::s(format!("{:?}", other.map_err(|e| e.to_string())))),
    }
    rep.eval();
    let r = testing::capture_panic(|| {
        let inner = testing::capture_panic(|| panic!("inner"));
        assert!(inner.is_err());
        panic!("outer");
    });
    if !matches!(&r, Err(e) if e.to_string().contains("outer")) {
        rep.violation("capture_panic:nested→outer-message-lost", J::s(format!("{:?}", r.map_err(|e| e.to_string()))));
    }
    rep.eval();
    if testing::capture_panic(|| {}).is_err() {
        rep.violation("capture_panic:no-panic→Err", J::Null);
    }
    let hs: Vec<_> = (0..8)
        .map(|i| {
            std::thread::spawn(move || {
                let mut bad = 0;
                for k in 0..50 {
                    let r = testing::capture_panic(|| panic!("t{}-{}", i, k));
                    if !matches!(&r, Err(e) if e.to_string().contains(&format!("t{}-{}", i, k))) {
                        bad += 1;
                    }
                }
                bad
            })
        })
        .collect();
    let bad: i32 = hs.into_iter().map(|h| h.join().unwrap_or(1)).sum();
    rep.eval();
    rep.key_str("capture_panic:concurrent");
    rep.key_str("capture_panic:nested");
    if bad > 0 {
        rep.violation("capture_panic:concurrent→message-lost", J::Int(bad as i64));
    }
    crate::infra::silence_panics();
}
