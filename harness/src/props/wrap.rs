// C13: Vfs / VfsEntry are transparent wrappers (transcript equality direct vs wrapped)
use rivia::prelude::*;

use super::{memfs::*, Prop};
use crate::{fsops::*, infra::*, stdside::*};

pub fn props() -> Vec<Prop> {
    vec![Prop {
        id: "C13",
        run: c13,
        tools: None,
        rule: "the same call sequence (a deterministic pass that calls every VirtualFileSystem method, then seeded random histories from the C01 alphabet) is executed on Memfs directly, on Vfs::Memfs(Memfs::new()) and on Memfs::new().upcast(); every call's result and the complete hook snapshot after it must be equal. The same for Stdfs vs Vfs::Stdfs in two freshly created sandboxes (results compared after replacing the sandbox prefix, trees through std::fs). For every VfsEntry obtained (entry(), entries()) all Entry accessors on the enum are compared with the wrapped MemfsEntry/StdfsEntry extracted by pattern match, before and after follow(true)/follow(false)/follow(true). distinct_nontrivial = distinct (backend, method or accessor set, argument class, outcome class) triples. Later additions: a boundary-argument pass (modes 0 / special / with type bits, empty payloads, existing targets, unclean spellings, uid/gid extremes, chowns to distinct ids); a held-builder pass (builders kept across set_cwd / executed twice); a handle visibility script (what other calls see between write / flush / drop of open handles, overlapping append handles); clone steps in the VfsEntry accessor comparison; the Stdfs comparison stops at the first divergence. Later addition: a stale-state pass - the working directory removed, replaced by a file or moved away and then named again (by path, by '.'), an entry that changes kind between two identical queries.",
        assumptions: &["the Stdfs half runs as uid 1000 inside a private sandbox directory; set_cwd is exercised on Memfs only (process cwd is shared by the two Stdfs runs)"],
        shards_quick: 8,
        shards_thorough: 16,
        budget_quick_s: 240,
        budget_thorough_s: 1200,
        min_evals: 5_000,
        exhaustive_capable: false,
    }]
}

fn every_method_pass() -> Vec<Op> {
    let s = |x: &str| x.to_string();
    vec![
        Op::MkdirP(s("/a/b")),
        Op::MkdirM(s("/c"), 0o711),
        Op::Mkfile(s("/a/f")),
        Op::MkfileM(s("/a/g"), 0o600),
        Op::WriteAll(s("/a/f"), b"one\ntwo\n".to_vec()),
        Op::WriteLines(s("/a/h"), vec![s("x"), s("y")]),
        Op::AppendAll(s("/a/f"), b"three".to_vec()),
        Op::AppendLine(s("/a/h"), s("z")),
        Op::AppendLines(s("/a/h"), vec![s("u"), s("v")]),
        Op::WriteH(s("/a/w"), b"handle".to_vec()),
        Op::AppendH(s("/a/w"), b"+more".to_vec()),
        Op::Symlink(s("/a/lf"), s("/a/f")),
        Op::Symlink(s("/a/ld"), s("/a/b")),
        Op::Symlink(s("/a/lx"), s("missing")),
        Op::ReadAll(s("/a/f")),
        Op::ReadLines(s("/a/h")),
        Op::ReadBytes(s("/a/w")),
        Op::Readlink(s("/a/lf")),
        Op::ReadlinkAbs(s("/a/ld")),
        Op::Chmod(s("/a/b"), 0o750),
        Op::ChmodB(s("/a"), ChmodO { all: None, dirs: Some(0o755), files: None, sym: Some(s("f:u+x")), recurse: Some(true), follow: false }),
        Op::Chown(s("/a/g"), 1000, 1000),
        Op::ChownB(s("/a/b"), ChownO { uid: Some(1000), gid: None, recurse: Some(false), follow: true }),
        // distinct ids, so that an owner / uid / gid accessor that answers with the wrong field shows (the real
        // backend refuses these as uid 1000, identically on both sides)
        Op::Chown(s("/a/f"), 11, 12),
        Op::ChownB(s("/a"), ChownO { uid: None, gid: Some(7), recurse: Some(false), follow: false }),
        Op::ChownB(s("/c"), ChownO { uid: Some(8), gid: None, recurse: None, follow: false }),
        Op::Copy(s("/a"), s("/d")),
        Op::CopyB(s("/a/f"), s("/c/f2"), CopyMode::Files(0o640), true),
        Op::MoveP(s("/d/h"), s("/c")),
        Op::Abs(s("/a/../a/./f")),
        Op::Cwd,
        Op::Root,
        Op::ConfigDir(s("app.toml")),
    ]
    .into_iter()
    .chain(
        ["/a", "/a/f", "/a/lf", "/a/ld", "/a/lx", "/nope", "/c/h"].iter().flat_map(|p| {
            let p = p.to_string();
            vec![
                Op::Exists(p.clone()),
                Op::IsDir(p.clone()),
                Op::IsFile(p.clone()),
                Op::IsSymlink(p.clone()),
                Op::IsSymlinkDir(p.clone()),
                Op::IsSymlinkFile(p.clone()),
                Op::IsExec(p.clone()),
                Op::IsReadonly(p.clone()),
                Op::Mode(p.clone()),
                Op::Owner(p.clone()),
                Op::Uid(p.clone()),
                Op::Gid(p.clone()),
                Op::Entry(p.clone()),
                Op::Paths(p.clone()),
                Op::Dirs(p.clone()),
                Op::Files(p.clone()),
                Op::AllPaths(p.clone()),
                Op::AllDirs(p.clone()),
                Op::AllFiles(p.clone()),
                Op::Entries(p.clone()),
            ]
        }),
    )
    .chain(vec![Op::Remove(s("/a/lx")), Op::RemoveAll(s("/d")), Op::SetCwd(s("/a"))])
    .collect()
}

/// boundary arguments for every parameter kind (modes with 0 / special / type bits, empty payloads and line
/// lists, existing targets, unclean path spellings): a wrapper that re-implements a method instead of delegating
/// it tends to differ exactly there
fn boundary_pass() -> Vec<Op> {
    let s = |x: &str| x.to_string();
    let mut v = vec![Op::MkdirP(s("/q"))];
    for (i, m) in [0u32, 0o1, 0o400, 0o644, 0o777, 0o4755, 0o7777, 0o100644, 0o40755, 0o100000, 0o40000].iter().enumerate() {
        let (f, d, c, cc) = (format!("/q/f{}", i), format!("/q/d{}", i), format!("/q/c{}", i), format!("/q/cc{}", i));
        v.extend(vec![
            Op::MkfileM(f.clone(), *m),
            Op::Mode(f.clone()),
            Op::MkfileM(f.clone(), 0o640), // existing target
            Op::Mode(f.clone()),
            Op::MkdirM(d.clone(), *m),
            Op::Mode(d.clone()),
            Op::MkdirM(d.clone(), 0o750), // existing target
            Op::Mode(d.clone()),
            Op::Mkfile(c.clone()),
            Op::Chmod(c.clone(), *m),
            Op::Mode(c.clone()),
            Op::ChmodB(c.clone(), ChmodO { all: Some(*m), dirs: None, files: None, sym: None, recurse: None, follow: false }),
            Op::Mode(c.clone()),
            Op::WriteAll(c.clone(), b"x".to_vec()),
            Op::CopyB(c.clone(), cc.clone(), CopyMode::All(*m), false),
            Op::Mode(cc.clone()),
            Op::CopyB(c.clone(), cc.clone(), CopyMode::Files(0o604), false), // existing target
            Op::Mode(cc.clone()),
        ]);
    }
    v.extend(vec![
        // what a link reports about a target with unusual permission bits (the real backend answers is_readonly /
        // is_exec through the link, mode() for the link itself)
        Op::WriteAll(s("/q/ro"), b"r".to_vec()),
        Op::Chmod(s("/q/ro"), 0o444),
        Op::Symlink(s("/q/lro"), s("/q/ro")),
        Op::WriteAll(s("/q/xx"), b"x".to_vec()),
        Op::Chmod(s("/q/xx"), 0o755),
        Op::Symlink(s("/q/lxx"), s("/q/xx")),
        Op::MkdirM(s("/q/rod"), 0o555),
        Op::Symlink(s("/q/lrod"), s("/q/rod")),
        Op::IsReadonly(s("/q/lro")),
        Op::IsExec(s("/q/lro")),
        Op::Mode(s("/q/lro")),
        Op::IsReadonly(s("/q/lxx")),
        Op::IsExec(s("/q/lxx")),
        Op::Mode(s("/q/lxx")),
        Op::IsReadonly(s("/q/lrod")),
        Op::IsExec(s("/q/lrod")),
        Op::IsReadonly(s("/q/ro")),
        Op::IsExec(s("/q/xx")),
        Op::Entry(s("/q/lro")),
        Op::Entry(s("/q/lrod")),
        Op::Chmod(s("/q/rod"), 0o755),
        Op::WriteAll(s("/q/e1"), vec![]),
        Op::WriteLines(s("/q/e2"), vec![]),
        Op::WriteLines(s("/q/e3"), vec![s(""), s("a\nb"), s("")]),
        Op::AppendAll(s("/q/e4"), vec![]),
        Op::AppendLine(s("/q/e5"), s("")),
        Op::AppendLines(s("/q/e6"), vec![]),
        Op::AppendLines(s("/q/e3"), vec![s("")]),
        Op::WriteH(s("/q/e7"), vec![]),
        Op::AppendH(s("/q/e8"), vec![]),
        Op::WriteAll(s("/q/d3"), b"onto a directory".to_vec()),
        Op::AppendAll(s("/q/missing/x"), b"no parent".to_vec()),
        Op::Symlink(s("/q/l1"), s("")),
        Op::Symlink(s("/q/l2"), s("/q/e1")),
        Op::Symlink(s("/q/l2"), s("/q/e2")), // existing link
        Op::Symlink(s("/q/e1"), s("/q/e2")), // existing file
        Op::MkdirP(s("/q/e1/below-a-file")),
        Op::Mkfile(s("/q/d3")),
        Op::Chown(s("/q/e1"), 0, 0),
        Op::Chown(s("/q/e1"), u32::MAX - 1, u32::MAX - 1),
        Op::MoveP(s("/q/e1"), s("/q/e1")),
        Op::MoveP(s("/q"), s("/q/d3/in-itself")),
        Op::Copy(s("/q/e2"), s("/q/e2")),
        Op::Remove(s("/q/d3")),
        Op::Remove(s("/q/nope")),
        Op::RemoveAll(s("/q/nope")),
    ]);
    for p in ["", "/", "/q/../q/./e2", "//q//e2", "/q/e2/", "/q/e2/.", "/q/l2", "/q/l1", "/q/d0/x"] {
        let p = p.to_string();
        v.extend(vec![
            Op::ReadAll(p.clone()),
            Op::ReadLines(p.clone()),
            Op::ReadBytes(p.clone()),
            Op::Exists(p.clone()),
            Op::IsFile(p.clone()),
            Op::IsDir(p.clone()),
            Op::Mode(p.clone()),
            Op::Abs(p.clone()),
            Op::Readlink(p.clone()),
            Op::ReadlinkAbs(p.clone()),
            Op::Entry(p.clone()),
            Op::Paths(p.clone()),
            Op::AllPaths(p.clone()),
            Op::Entries(p.clone()),
            Op::Mkfile(p.clone()),
            Op::MkdirP(p.clone()),
            Op::WriteAll(p.clone(), b"w".to_vec()),
            Op::AppendLine(p.clone(), s("l")),
        ]);
    }
    v
}

/// builders that are kept while the cwd changes, or executed twice: the wrapper has to hand out a builder that
/// resolves its paths at the same moment as the wrapped backend's builder
/// Calls whose answer depends on state an EARLIER call left behind and that has gone stale since: the working
/// directory that was removed, replaced by a file or moved away, then named again (by its path, by "."); an entry
/// asked for again after it changed kind. A wrapper that remembers or short-cuts anything shows here.
fn stale_state_pass() -> Vec<Op> {
    let s = |x: &str| x.to_string();
    vec![
        Op::MkdirP(s("/w/d")),
        Op::SetCwd(s("/w/d")),
        Op::SetCwd(s("/w/d")), // already there
        Op::SetCwd(s(".")),
        Op::Cwd,
        Op::Remove(s("/w/d")),
        Op::SetCwd(s("/w/d")), // the recorded cwd no longer exists
        Op::SetCwd(s(".")),
        Op::Cwd,
        Op::Abs(s("x")),
        Op::Mkfile(s("x")),
        Op::Mkfile(s("/w/d")), // ... and is a file now
        Op::SetCwd(s("/w/d")),
        Op::SetCwd(s(".")),
        Op::SetCwd(s("/")),
        Op::MkdirP(s("/m")),
        Op::SetCwd(s("/m")),
        Op::MoveP(s("/m"), s("/moved")),
        Op::SetCwd(s("/m")),
        Op::SetCwd(s(".")),
        Op::Cwd,
        Op::Mkfile(s("y")),
        Op::Exists(s("/m/y")),
        Op::Exists(s("/moved/y")),
        Op::SetCwd(s("/moved")),
        Op::SetCwd(s("/moved")),
        Op::Cwd,
        Op::SetCwd(s("/")),
        // an entry that changes kind between two identical queries
        Op::Mkfile(s("/k")),
        Op::IsFile(s("/k")),
        Op::Entry(s("/k")),
        Op::Remove(s("/k")),
        Op::MkdirP(s("/k")),
        Op::IsFile(s("/k")),
        Op::IsDir(s("/k")),
        Op::Entry(s("/k")),
        Op::Remove(s("/k")),
        Op::Symlink(s("/k"), s("/w")),
        Op::IsDir(s("/k")),
        Op::IsSymlinkDir(s("/k")),
        Op::Entry(s("/k")),
        Op::Mode(s("/k")),
        Op::Owner(s("/k")),
        Op::AllPaths(s("/")),
    ]
}

fn held_pass() -> Vec<Op> {
    let s = |x: &str| x.to_string();
    let b = |o: Op, c: &[&str]| Op::Held(Box::new(o), c.iter().map(|x| x.to_string()).collect());
    let chmod = |p: &str, m: u32| Op::ChmodB(s(p), ChmodO { all: Some(m), dirs: None, files: None, sym: None, recurse: None, follow: false });
    let chown = |p: &str| Op::ChownB(s(p), ChownO { uid: Some(1000), gid: Some(1000), recurse: None, follow: false });
    let mut v = vec![
        Op::MkdirP(s("/h1/d")),
        Op::MkdirP(s("/h2/d")),
        Op::WriteAll(s("/h1/f"), b"one".to_vec()),
        Op::WriteAll(s("/h2/f"), b"two".to_vec()),
        Op::WriteAll(s("/h1/only1"), b"1".to_vec()),
        Op::WriteAll(s("/h2/only2"), b"2".to_vec()),
    ];
    let look = |v: &mut Vec<Op>| {
        v.push(Op::AllPaths(s("/")));
        for p in ["/h1/f", "/h2/f", "/h1/only1", "/h2/only2", "/h1/d", "/h2/d"] {
            v.push(Op::Mode(s(p)));
            v.push(Op::Owner(s(p)));
        }
        for p in ["/h1/copy", "/h2/copy", "/h1/copy2", "/h2/copy2", "/h1/d/c3", "/h2/d/c3"] {
            v.push(Op::ReadAll(s(p)));
        }
    };
    for (o, cwds) in [
        (Op::CopyB(s("f"), s("copy"), CopyMode::None, false), vec!["/h1", "/h2"]),
        (Op::CopyB(s("f"), s("copy2"), CopyMode::Files(0o640), false), vec!["/h1", "/h2", "/h1"]),
        (Op::CopyB(s("only1"), s("d/c3"), CopyMode::None, false), vec!["/h1", "/h2"]),
        (chmod("f", 0o600), vec!["/h1", "/h2"]),
        (chmod("d", 0o711), vec!["/h1", "/h2", "/"]),
        (chmod("only2", 0o640), vec!["/h1", "/h2"]),
        (chown("f"), vec!["/h2", "/h1"]),
        (chown("only1"), vec!["/h1", "/h2", "/h1"]),
    ] {
        v.push(b(o, &cwds));
        look(&mut v);
    }
    v
}

fn entry_accessors_memfs(v: &Vfs, paths: &[String], rep: &mut Report) {
    for p in paths {
        let items: Vec<VfsEntry> = {
            let mut x = vec![];
            if let Ok(e) = v.entry(p) {
                x.push(e);
            }
            if let Ok(es) = v.entries(p) {
                for e in es.into_iter().take(40).flatten() {
                    x.push(e);
                }
            }
            x
        };
        for ve in items {
            rep.eval();
            let kind = format!("{}{}{}", if ve.is_symlink() { "link" } else { "" }, if ve.is_dir() { "dir" } else { "" }, if ve.is_file() { "file" } else { "" });
            rep.key_str(&format!("entry-accessors:{}:{}", backend_name(&ve), kind));
            let mut steps = vec![("as-obtained", entry_view(&ve), inner_view(&ve))];
            let mut cur = ve.clone();
            for f in [true, false, true] {
                let inner_followed = match cur.clone() {
                    VfsEntry::Memfs(x) => entry_view(&x.follow(f)),
                    VfsEntry::Stdfs(x) => entry_view(&x.follow(f)),
                };
                cur = cur.follow(f);
                steps.push((if f { "follow(true)" } else { "follow(false)" }, entry_view(&cur), inner_followed));
                steps.push((if f { "clone-after-follow(true)" } else { "clone-after-follow(false)" }, entry_view(&cur.clone()), entry_view(&cur)));
            }
            let up = ve.clone().upcast();
            steps.push(("upcast", entry_view(&up), entry_view(&ve)));
            for (what, a, b) in steps {
                if a != b {
                    rep.violation(
                        &format!("wrap:VfsEntry({},{}):{}:same-as-wrapped→differs", backend_name(&ve), kind, what),
                        J::obj(vec![("path", J::s(p)), ("through_enum", J::s(format!("{:?}", a))), ("wrapped", J::s(format!("{:?}", b)))]),
                    );
                }
            }
        }
    }
}
fn backend_name(e: &VfsEntry) -> &'static str {
    match e {
        VfsEntry::Memfs(_) => "memfs",
        VfsEntry::Stdfs(_) => "stdfs",
    }
}
fn inner_view(e: &VfsEntry) -> EntryView {
    match e {
        VfsEntry::Memfs(x) => entry_view(x),
        VfsEntry::Stdfs(x) => entry_view(x),
    }
}

fn snap_of(v: &Vfs) -> Option<Snapshot> {
    match v {
        Vfs::Memfs(m) => Some(m.verif_snapshot()),
        _ => None,
    }
}

fn run_memfs_transcript(ops: &[Op], rep: &mut Report, tag: &str) {
    let direct = Memfs::new();
    let wrapped = Vfs::Memfs(Memfs::new());
    let up = Memfs::new().upcast();
    let mut hist: Vec<String> = vec![];
    let mut shadow = crate::model::Model::new(HOME);
    for (i, op) in ops.iter().enumerate() {
        // a copy that fails half way or records link kinds in traversal order leaves a state that depends on
        // the (per instance) hash order of Memfs: not a wrapper matter, so those calls are left out
        if matches!(op, Op::Copy(..) | Op::CopyB(..)) {
            if let crate::model::Expect::Unspecified(_) = shadow.step(op) {
                rep.count("order-dependent copy calls left out", 1);
                continue;
            }
        }
        rep.eval();
        set_case(&format!("wrap:{}:returns→stalls", op.name()), &op.describe());
        let r1 = exec(&direct, op);
        let r2 = exec(&wrapped, op);
        let r3 = exec(&up, op);
        hist.push(op.describe());
        rep.key_str(&format!("memfs:{}:{}", op.name(), r1.class()));
        rep.count(&format!("method:{}", op.name()), 1);
        let s1 = direct.verif_snapshot();
        shadow.t = memfs_ntree(&s1);
        let mut diverged = false;
        // a multi-entry call that fails half way (link loop under follow, type conflict ...) stops where its
        // unordered traversal was: the instances are legitimately out of step then, which is not a wrapper matter
        let partial = r1.is_err() && r2.is_err() && r3.is_err() && matches!(op, Op::Copy(..) | Op::CopyB(..) | Op::Chmod(..) | Op::ChmodB(..) | Op::Chown(..) | Op::ChownB(..) | Op::RemoveAll(..) | Op::MkfileM(..));
        if partial && (snap_of(&wrapped).map(|s| s != s1).unwrap_or(true) || snap_of(&up).map(|s| s != s1).unwrap_or(true)) {
            rep.count("histories ended at a multi-entry call that failed half way", 1);
            break;
        }
        for (name, r, v) in [("Vfs::Memfs", &r2, &wrapped), ("upcast", &r3, &up)] {
            let same_state = snap_of(v).map(|s| s == s1).unwrap_or(false);
            // (after such a half-way failure the error that was met first may differ as well)
            let same_res = if partial { r.is_err() } else { *r == r1 };
            if !same_res || !same_state {
                diverged = true;
                rep.violation(
                    &format!("wrap:{}({}):{}→{}", op.name(), name, r1.class(), if !same_res { format!("result {}", r.class()) } else { "state differs".into() }),
                    J::obj(vec![
                        ("history", J::strs(&hist[hist.len().saturating_sub(12)..])),
                        ("call", J::s(op.describe())),
                        ("direct", J::s(r1.short())),
                        ("through_wrapper", J::s(r.short())),
                        ("workload", J::s(tag)),
                    ]),
                );
            }
        }
        if i % 25 == 24 || i + 1 == ops.len() {
            let paths: Vec<String> = s1.entries.iter().map(|e| ps(&e.key)).take(30).collect();
            entry_accessors_memfs(&wrapped, &paths, rep);
        }
        if diverged {
            // everything after the first difference would only repeat it
            break;
        }
    }
    if rep.want_sample() {
        rep.sample(J::obj(vec![("workload", J::s(tag)), ("calls", J::Int(ops.len() as i64)), ("tail", J::strs(&hist[hist.len().saturating_sub(5)..]))]));
    }
}

/// the top directory of one of the two Stdfs sandboxes (<tmp>/A or <tmp>/B): everything a call can reach, also
/// through a link that resolves above the sandbox root, lies below it and starts out equal on both sides
fn top_of(root: &str) -> String {
    root.strip_suffix(NEST).unwrap_or(root).to_string()
}
const NEST: &str = "/1/2/3/s";

fn norm(r: &Res, root: &str) -> String {
    // (a copy under follow recreates absolute target paths below its destination - the recorded C09 finding - so the
    // name of the top directory itself, A or B, can show up as the file name of an entry)
    let top = top_of(root);
    format!("{:?}", r).replace(root, "<R>").replace(&top, "<T>").replace(&format!("file_name: Some({:?})", base_of(&top)), "file_name: Some(\"<top>\")")
}

/// the entries below `root` in the order the kernel lists them (what a traversal of the real backend follows)
fn readdir_order(root: &str) -> Vec<String> {
    let mut out = vec![];
    let mut stack = vec![root.to_string()];
    while let Some(d) = stack.pop() {
        if let Ok(rd) = std::fs::read_dir(&d) {
            for e in rd.flatten() {
                let p = e.path().to_string_lossy().to_string();
                let md = std::fs::symlink_metadata(&p);
                let kind = match &md {
                    Ok(m) if m.file_type().is_symlink() => format!("l>{}", std::fs::read_link(&p).map(|t| t.to_string_lossy().to_string()).unwrap_or_default()),
                    Ok(m) if m.is_dir() => "d".to_string(),
                    _ => "f".to_string(),
                };
                out.push(format!("{} {}", p, kind));
                if kind == "d" {
                    stack.push(p);
                }
            }
        }
    }
    out
}

fn run_stdfs_transcript(ops: &[Op], ra: &str, rb: &str, rep: &mut Report, tag: &str) {
    // (the whole top directories, not only the sandbox roots: a link moved upwards resolves above the root and what
    // a call creates there must not survive into the next transcript, on one side only)
    wipe(&top_of(ra));
    wipe(&top_of(rb));
    let _ = std::fs::create_dir_all(ra);
    let _ = std::fs::create_dir_all(rb);
    let direct = Stdfs::new();
    let wrapped = Vfs::stdfs();
    let mut hist: Vec<String> = vec![];
    for (i, op) in ops.iter().enumerate() {
        // (relative paths depend on the process cwd, which the two sandboxes share; a held builder sets it itself)
        if matches!(op, Op::SetCwd(_) | Op::ConfigDir(_)) || (!matches!(op, Op::Held(..)) && op.paths().iter().any(|p| !p.starts_with('/'))) {
            continue;
        }
        if let Op::Copy(a, b) | Op::CopyB(a, b, _, _) = op {
            // Stdfs::copy of a directory into its own subtree walks the tree it is creating (recorded under C02/C09)
            let (a, b) = (crate::refs::go_clean(a), crate::refs::go_clean(b));
            if a == b || is_under(&b, &a) || a == "/" {
                continue;
            }
        }
        rep.eval();
        let (oa, ob) = (map_op(op, ra), map_op(op, rb));
        set_case(&format!("wrap-stdfs:{}:returns→stalls", op.name()), &format!("{} after {:?} on {}{}", oa.describe(), &hist[hist.len().saturating_sub(30)..], disk_ntree(ra).to_json().dump(), if matches!(op, Op::CopyB(_, _, _, true)) { format!(" readdir-order {:?}", readdir_order(ra)) } else { String::new() }));
        let r1 = exec(&direct, &oa);
        set_case(&format!("wrap-stdfs:{}(through the wrapper):returns→stalls", op.name()), &format!("{} after {:?} on {}", ob.describe(), &hist[hist.len().saturating_sub(30)..], disk_ntree(rb).to_json().dump()));
        let r2 = exec(&wrapped, &ob);
        set_case("wrap-stdfs:harness-observers", "");
        hist.push(op.describe());
        rep.key_str(&format!("stdfs:{}:{}", op.name(), r1.class()));
        rep.count(&format!("method-stdfs:{}", op.name()), 1);
        let (n1, n2) = (norm(&r1, ra), norm(&r2, rb));
        let (t1, t2) = (comparable(&disk_ntree(ra)), comparable(&disk_ntree(rb)));
        // (a link moved upwards can resolve next to the sandbox root, and a copy under follow recreates absolute
        // target paths below the destination: the differing parent directory names A / B are neutralised too)
        let (pa, pb) = (top_of(ra), top_of(rb));
        let t1: Vec<(String, String)> = t1.into_iter().map(|(k, v)| (k.replace(ra, "<R>").replace(&pa, "<T>"), v.replace(ra, "<R>").replace(&pa, "<T>"))).collect();
        let t2: Vec<(String, String)> = t2.into_iter().map(|(k, v)| (k.replace(rb, "<R>").replace(&pb, "<T>"), v.replace(rb, "<R>").replace(&pb, "<T>"))).collect();
        if n1 != n2 || t1 != t2 {
            rep.violation(
                &format!("wrap:{}(Vfs::Stdfs):{}→{}", op.name(), r1.class(), if n1 != n2 { format!("result {}", r2.class()) } else { "tree differs".into() }),
                J::obj(vec![
                    ("history", J::strs(&hist[hist.len().saturating_sub(12)..])),
                    ("call", J::s(op.describe())),
                    ("direct", J::s(n1.chars().take(300).collect::<String>())),
                    ("through_wrapper", J::s(n2.chars().take(300).collect::<String>())),
                    ("workload", J::s(tag)),
                    ("first_difference_in_result", J::s({
                        let i = n1.bytes().zip(n2.bytes()).position(|(a, b)| a != b).unwrap_or(n1.len().min(n2.len()));
                        let lo = (0..=i.saturating_sub(160)).rev().find(|k| n1.is_char_boundary(*k) && n2.is_char_boundary(*k)).unwrap_or(0);
                        let cut = |s: &str| s[lo..].chars().take(400).collect::<String>();
                        format!("at byte {}: direct …{} | wrapped …{}", i, cut(&n1), cut(&n2))
                    })),
                    ("raw_tree_direct", disk_ntree(ra).to_json()),
                    ("raw_tree_wrapped", disk_ntree(rb).to_json()),
                    ("tree_direct_vs_wrapped", J::s(diff_maps(&t1.iter().cloned().collect(), &t2.iter().cloned().collect()))),
                ]),
            );
            break; // the two instances are no longer in the same state: nothing after this can be compared
        }
        if i % 40 == 39 || i + 1 == ops.len() {
            let paths: Vec<String> = disk_ntree(rb).nodes.keys().take(20).cloned().collect();
            entry_accessors_memfs(&wrapped, &paths, rep);
        }
    }
}

/// What other calls can see while a write / append handle obtained through the wrapper is still open must be what
/// they see with a handle of the wrapped backend: bytes become visible at the same moments (write, flush, drop) and
/// overlapping handles land in the same order
fn handle_visibility<A: VirtualFileSystem, B: VirtualFileSystem>(direct: &A, wrapped: &B, da: &str, db: &str, name: &str, rep: &mut Report) {
    fn script<V: VirtualFileSystem>(v: &V, dir: &str) -> Vec<String> {
        use std::io::Write;
        let mut obs = vec![];
        let f = format!("{}/hv", dir);
        let see = |v: &V, tag: &str, obs: &mut Vec<String>| {
            obs.push(format!("{}: {:?}", tag, v.read_all(&f).map_err(|e| err_kind(&e))));
        };
        let _ = v.mkdir_p(dir);
        let _ = v.remove(&f);
        match v.write(&f) {
            Ok(mut w) => {
                see(v, "write handle open", &mut obs);
                let _ = w.write_all(b"abcdef");
                see(v, "after write(6 bytes), no flush", &mut obs);
                let _ = w.flush();
                see(v, "after flush", &mut obs);
                let _ = w.write_all(b"gh");
                see(v, "after write(2 more), no flush", &mut obs);
                drop(w);
                see(v, "after drop", &mut obs);
            },
            Err(e) => obs.push(format!("write(): Err {}", err_kind(&e))),
        }
        match (v.append(&f), v.append(&f)) {
            (Ok(mut a1), Ok(mut a2)) => {
                let _ = a1.write_all(b"1a ");
                let _ = a2.write_all(b"2a ");
                see(v, "two append handles, one write each", &mut obs);
                let _ = a1.write_all(b"1b ");
                drop(a1);
                see(v, "first append handle dropped", &mut obs);
                drop(a2);
                see(v, "second append handle dropped", &mut obs);
            },
            _ => obs.push("append(): Err".into()),
        }
        if let Ok(mut w) = v.write(&f) {
            let _ = w.write_all(&vec![b'z'; 20_000]);
            obs.push(format!("after one write of 20000 bytes, no flush: {:?} bytes", v.read_all(&f).map(|s| s.len()).map_err(|e| err_kind(&e))));
            let _ = w.write_all(b"tail");
            drop(w);
            obs.push(format!("after drop: {:?} bytes", v.read_all(&f).map(|s| s.len()).map_err(|e| err_kind(&e))));
        }
        let _ = v.remove(&f);
        obs
    }
    rep.eval();
    set_case(&format!("wrap:handles({}):returns→stalls", name), "handle visibility script");
    let (o1, o2) = (script(direct, da), script(wrapped, db));
    rep.key_str(&format!("handle-visibility:{}:{}", name, o1.len()));
    rep.count("handle_visibility_scripts", 1);
    if let Some(i) = (0..o1.len().max(o2.len())).find(|i| o1.get(*i) != o2.get(*i)) {
        rep.violation(
            &format!("wrap:open-handle({}):visible-bytes-same-as-wrapped→differ", name),
            J::obj(vec![("step", J::Int(i as i64)), ("direct", J::s(o1.get(i).cloned().unwrap_or_default())), ("through_wrapper", J::s(o2.get(i).cloned().unwrap_or_default())), ("direct_all", J::strs(&o1)), ("wrapped_all", J::strs(&o2))]),
        );
    }
}

fn c13(ctx: &Ctx, rep: &mut Report) {
    std::env::set_var("HOME", HOME);
    let (sb, root) = Sandbox::nested("c13");
    let ra = format!("{}/A{}", root, NEST);
    let rb = format!("{}/B{}", root, NEST);
    std::fs::create_dir_all(&ra).unwrap();
    std::fs::create_dir_all(&rb).unwrap();
    if !drop_privileges(&sb, 1000, 1000) {
        rep.inconclusive("could not switch to uid 1000 for the Stdfs half");
    }
    let pass = every_method_pass();
    run_memfs_transcript(&pass, rep, "every-method pass");
    run_stdfs_transcript(&pass, &ra, &rb, rep, "every-method pass");
    let pass = boundary_pass();
    run_memfs_transcript(&pass, rep, "boundary-argument pass");
    run_stdfs_transcript(&pass, &ra, &rb, rep, "boundary-argument pass");
    let pass = held_pass();
    run_memfs_transcript(&pass, rep, "held-builder pass");
    run_stdfs_transcript(&pass, &ra, &rb, rep, "held-builder pass");
    let pass = stale_state_pass();
    run_memfs_transcript(&pass, rep, "stale-state pass");
    run_stdfs_transcript(&pass, &ra, &rb, rep, "stale-state pass");
    handle_visibility(&Stdfs::new(), &Vfs::stdfs(), &format!("{}/hvd", ra), &format!("{}/hvd", ra), "Vfs::Stdfs", rep);
    handle_visibility(&Stdfs::new(), &Stdfs::new().upcast(), &format!("{}/hvd", ra), &format!("{}/hvd", ra), "Stdfs::upcast", rep);
    handle_visibility(&Memfs::new(), &Vfs::memfs(), "/hvd", "/hvd", "Vfs::Memfs", rep);
    handle_visibility(&Memfs::new(), &Memfs::new().upcast(), "/hvd", "/hvd", "Memfs::upcast", rep);
    let paths = namespace(&["a", "b", "c"], 3);
    let mut rng = ctx.rng("c13");
    let n = if ctx.thorough { 20_000 } else { 400 } / ctx.shards + 1;
    let len = if ctx.thorough { 200 } else { 100 };
    let mut uid = (ctx.shard as u64) << 40;
    for h in 0..n {
        let mut ops = vec![];
        let mut cwd = "/".to_string();
        for _ in 0..len {
            let op = random_op(&mut rng, &paths, &cwd, &mut uid);
            if let Op::SetCwd(p) = &op {
                if p.starts_with('/') && !p.contains("..") && !p.contains("//") {
                    cwd = crate::refs::go_clean(p);
                }
            }
            ops.push(op);
        }
        run_memfs_transcript(&ops, rep, "random history");
        if h % 4 == 0 {
            run_stdfs_transcript(&ops, &ra, &rb, rep, "random history");
        }
    }
    drop(sb);
}
