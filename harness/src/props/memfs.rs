// C01 (reference-tree lock-step) and C03 (invariant walker) over Memfs
use std::collections::{BTreeMap, HashMap, HashSet, VecDeque};

use rivia::prelude::*;

use super::Prop;
use crate::{fsops::*, infra::*, model::*};

pub const HOME: &str = "/a";

pub fn props() -> Vec<Prop> {
    vec![
        Prop {
            id: "C01",
            run: c01,
            tools: None,
            rule: "lock-step oracle: every call is run on the real Memfs and on a reference tree written from the trait docs; result (value or documented error kind) and the complete post state (hook snapshot: names, kinds, bytes, link targets, modes, owners, cwd) must equal one of the outcomes the reference allows (one where documented, two at the listed either-points), a failed call must leave the snapshot unchanged. Workloads: (a) breadth-first sweep over reference states of a bounded namespace (names {a,b}, depth 2; thorough {a,b,c}) from the fresh filesystem, every call of a finite alphabet (every mutator/query x every path x spellings; move_p/copy/symlink over all ordered pairs) from every reached state, to the fixpoint or the state cap; (b) seeded random histories of 200-1500 calls over names {a,b,c}, depth 3 with hostile data. distinct_nontrivial = distinct (operation, argument classes, outcome class) triples. Later addition: when the reference says Unspecified the adopted real state must still carry, for every entry, the type bits of its kind.",
            assumptions: &[
                "reference semantics = trait documentation + pinned unit tests; either-points (docs silent) accept Ok or Err and are counted in the evidence",
                "no intermediate symlink resolution in the reference (the trait promises lexical resolution only)",
            ],
            shards_quick: 8,
            shards_thorough: 16,
            budget_quick_s: 240,
            budget_thorough_s: 1500,
            min_evals: 20_000,
            exhaustive_capable: true,
        },
        Prop {
            id: "C03",
            run: c03,
            tools: None,
            rule: "after every call of the C01 sweep and random histories, of an invalid-argument sweep (root as source/target, a path inside itself, empty, '..' above root, link parents, type-confused targets) and of hostile-string calls, the hook snapshot of the complete internal state is walked for the 7 clauses of the statement (parent exists / is a real directory / lists the child; listed names exist; entry.path == key; data records == regular files; reachability from the root == all keys; cwd/root absolute; lock not poisoned) and cross-checked through exists()/all_paths()/Display; stale write()/append() handles that outlive their file (12 replacement kinds); and at quiescence after every schedule of small concurrent programs (controlled scheduler of C04) and after free-running ones. distinct_nontrivial = distinct (operation, argument classes, outcome class) triples after which the walk ran.",
            assumptions: &["invariants are observed at call boundaries (quiescence), where they are observable"],
            shards_quick: 8,
            shards_thorough: 16,
            budget_quick_s: 240,
            budget_thorough_s: 1500,
            min_evals: 20_000,
            exhaustive_capable: true,
        },
    ]
}

#[derive(Clone, Copy, PartialEq)]
pub enum Mode {
    Model,      // C01: report model mismatches
    Invariants, // C03: report invariant failures
}

pub struct LockStep {
    pub mem: Memfs,
    pub model: Model,
    pub history: Vec<Op>,
    pub mode: Mode,
    pub diverged: bool,
}

pub fn arg_classes(t: &NTree, model: &Model, op: &Op) -> String {
    let ps_ = op.paths();
    let mut cls = vec![];
    let mut abs = vec![];
    for p in &ps_ {
        match model.abs(p) {
            Some(Ok(a)) => {
                let mut c = t.class_of(&a).to_string();
                if a == t.cwd && a != "/" {
                    c.push_str("+cwd");
                }
                cls.push(c);
                abs.push(Some(a));
            },
            Some(Err(())) => {
                cls.push("unresolvable".into());
                abs.push(None);
            },
            None => {
                cls.push("unspecified-expansion".into());
                abs.push(None);
            },
        }
    }
    if abs.len() == 2 {
        if let (Some(a), Some(b)) = (&abs[0], &abs[1]) {
            cls.push(
                if a == b {
                    "same"
                } else if is_under(b, a) {
                    "second-in-first"
                } else if is_under(a, b) {
                    "first-in-second"
                } else {
                    "disjoint"
                }
                .to_string(),
            );
        }
    }
    // coarse extra argument classes
    match op {
        Op::CopyB(_, _, m, f) => cls.push(format!(
            "{}{}",
            match (m, m.effective()) {
                (CopyMode::Then(..), CopyMode::All(_)) => "mode=…then-all",
                (CopyMode::Then(..), CopyMode::Dirs(_)) => "mode=…then-dirs",
                (CopyMode::Then(..), CopyMode::Files(_)) => "mode=…then-files",
                (_, CopyMode::None) => "mode=none",
                (_, CopyMode::All(_)) => "mode=all",
                (_, CopyMode::Dirs(_)) => "mode=dirs",
                (_, _) => "mode=files",
            },
            if *f { "+follow" } else { "" }
        )),
        Op::ChmodB(_, o) => cls.push(format!(
            "{}{}{}{}{}",
            if o.all.is_some() { "all+" } else { "" },
            if o.dirs.is_some() { "dirs+" } else { "" },
            if o.files.is_some() { "files+" } else { "" },
            if o.sym.is_some() { "sym+" } else { "" },
            match (o.recurse, o.follow) {
                (Some(false), true) => "no-recurse+follow",
                (Some(false), false) => "no-recurse",
                (_, true) => "follow",
                _ => "",
            }
        )),
        Op::ChownB(_, o) => cls.push(format!(
            "{}{}{}",
            if o.uid.is_some() { "uid+" } else { "" },
            if o.gid.is_some() { "gid+" } else { "" },
            match (o.recurse, o.follow) {
                (Some(false), true) => "no-recurse+follow",
                (Some(false), false) => "no-recurse",
                (_, true) => "follow",
                _ => "",
            }
        )),
        Op::WriteLines(_, l) | Op::AppendLines(_, l) => cls.push(if l.is_empty() {
            "no-lines".into()
        } else if l.iter().any(|x| x.is_empty()) {
            "has-empty-line".into()
        } else {
            "lines".into()
        }),
        Op::AppendLine(_, l) => cls.push(if l.is_empty() { "empty-line".into() } else { "line".into() }),
        _ => {},
    }
    cls.join(",")
}

/// readlink()/Entry::rel are judged by the law "clean(dir(link)/rel) == target" (C10), not by one spelling:
/// a relative value satisfying the law is replaced by the reference's spelling before comparison.
pub fn normalize_rel(res: Res, op: &Op, model: &Model) -> Res {
    let fix = |link: &str, rel: &str| -> Option<String> {
        let n = model.t.nodes.get(link)?;
        if let NKind::Link { target, .. } = &n.kind {
            let dir = parent_of(link)?;
            let expect = ref_relative(target, &dir);
            if rel == expect {
                return None;
            }
            let joined = if rel.starts_with('/') { rel.to_string() } else { format!("{}/{}", dir, rel) };
            if (!rel.starts_with('/') || *target == dir) && crate::refs::go_clean(&joined) == *target {
                return Some(expect);
            }
        }
        None
    };
    match res {
        Res::Path(r) if matches!(op, Op::Readlink(_)) => {
            if let Some(Ok(a)) = model.abs(op.paths()[0]) {
                if let Some(x) = fix(&a, &r) {
                    return Res::Path(x);
                }
            }
            Res::Path(r)
        },
        Res::Entry(mut e) => {
            if e.is_symlink && !e.following {
                if let Some(x) = fix(&e.path.clone(), &e.rel) {
                    e.rel = x;
                }
            }
            Res::Entry(e)
        },
        Res::Items(mut v) => {
            for e in v.iter_mut() {
                if e.is_symlink && !e.following {
                    if let Some(x) = fix(&e.path.clone(), &e.rel) {
                        e.rel = x;
                    }
                }
            }
            v.sort();
            Res::Items(v)
        },
        r => r,
    }
}

/// how a post state differs from the expected one, entry by entry
pub fn change_categories(pre: &NTree, want: &NTree, got: &NTree) -> String {
    let mut cats = std::collections::BTreeSet::new();
    for k in want.nodes.keys().chain(got.nodes.keys()) {
        let (p, w, g) = (pre.nodes.get(k), want.nodes.get(k), got.nodes.get(k));
        if w == g {
            continue;
        }
        let is_link = matches!(p.map(|n| &n.kind), Some(NKind::Link { .. }));
        if g == p {
            cats.insert(if is_link { "expected-change-of-link-missing" } else { "expected-change-missing" });
        } else if w == p {
            cats.insert(if is_link { "unexpected-change-of-link" } else { "unexpected-change" });
        } else {
            cats.insert("wrong-value");
        }
    }
    if cats.is_empty() {
        "same".into()
    } else {
        cats.into_iter().collect::<Vec<_>>().join("+")
    }
}

impl LockStep {
    pub fn new(mode: Mode) -> LockStep {
        LockStep { mem: Memfs::new(), model: Model::new(HOME), history: vec![], mode, diverged: false }
    }

    fn witness(&self, op: &Op, extra: Vec<(&str, J)>) -> J {
        let mut v = vec![
            ("history", J::Arr(self.history.iter().map(|o| J::s(o.describe())).collect())),
            ("call", J::s(op.describe())),
            ("pre_state", self.model.t.to_json()),
        ];
        v.extend(extra);
        J::obj(v)
    }

    /// run one call on both sides; returns false when the two sides diverged (model resynced from reality)
    pub fn apply(&mut self, op: &Op, rep: &mut Report) -> bool {
        let pre = self.model.t.clone();
        let classes = arg_classes(&pre, &self.model, op);
        let call = format!("{}({})", op.name(), classes);
        set_case(&format!("{}:returns→stalls", call), &format!("history={:?} call={:?}", self.history, op));
        rep.eval();
        let expect = self.model.step(op);
        let res = normalize_rel(exec(&self.mem, op), op, &self.model);
        let snap = self.mem.verif_snapshot();
        let real = memfs_ntree(&snap);
        rep.key_str(&format!("{}→{}", call, res.class()));
        let mut ok = true;

        // C03: structural invariants, specification free
        let inv = check_invariants(&snap);
        if self.mode == Mode::Invariants {
            rep.count("invariant_walks", 1);
            let mut seen = HashSet::new();
            for (id, detail) in &inv {
                if seen.insert(*id) {
                    rep.violation(
                        &format!("inv:{}(after={}→{})", id, call, res.class()),
                        self.witness(op, vec![("result", J::s(res.short())), ("invariant", J::s(*id)), ("detail", J::s(detail))]),
                    );
                }
            }
            if inv.is_empty() && rep.evals % 7 == 0 {
                self.api_crosscheck(&snap, op, &call, rep);
            }
        }

        if let Res::Panic(m) = &res {
            if self.mode == Mode::Model {
                rep.violation(&format!("model:{}:returns→panic", call), self.witness(op, vec![("panic", J::s(m))]));
            }
            ok = false;
        } else {
            match expect {
                Expect::Unspecified(why) => {
                    // nothing to compare against: follow reality (the invariants above still apply)
                    rep.count(&format!("unspecified:{}", why), 1);
                    // even then the adopted tree must be one a tree filesystem can be in: the type bits of every
                    // mode are those of the entry's kind
                    if self.mode == Mode::Model {
                        for (k, n) in &real.nodes {
                            let want = match n.kind {
                                NKind::Dir => 0o40000,
                                NKind::File(_) => 0o100000,
                                NKind::Link { .. } => 0o120000,
                            };
                            if n.mode & !0o7777 != want && pre.nodes.get(k).map(|m| m.mode != n.mode).unwrap_or(true) {
                                rep.violation(
                                    &format!("model:{}:mode-type-bits-of-the-kind→other-type-bits", call),
                                    self.witness(op, vec![("got", J::s(res.short())), ("entry", J::s(format!("{} mode {:o}", k, n.mode)))]),
                                );
                                break;
                            }
                        }
                    }
                    self.model.t = real;
                    self.history.push(op.clone());
                    return true;
                },
                Expect::Outcomes(outs) => {
                    let hit = outs.iter().find(|o| o.res.matches(&res) && o.post == real);
                    match hit {
                        Some(o) => {
                            if !o.either.is_empty() {
                                rep.count(&format!("either:{}", o.either), 1);
                            }
                            self.model.t = o.post.clone();
                        },
                        None => {
                            ok = false;
                            if self.mode == Mode::Model {
                                let expected: Vec<String> = outs.iter().map(|o| o.res.class()).collect();
                                let res_ok = outs.iter().any(|o| o.res.matches(&res));
                                let tree_rel = if real == pre { "tree-unchanged" } else { "tree-changed" };
                                let observed = if res_ok {
                                    let want_unchanged = outs.iter().filter(|o| o.res.matches(&res)).all(|o| o.post == pre);
                                    if matches!(op, Op::Chmod(..) | Op::ChmodB(..) | Op::Chown(..) | Op::ChownB(..)) {
                                        let o0 = outs.iter().find(|o| o.res.matches(&res)).unwrap();
                                        format!("{}+{}", res.class(), change_categories(&pre, &o0.post, &real))
                                    } else {
                                        format!("{}+{}", res.class(), if want_unchanged { "tree-changed" } else { "tree-differs-from-reference" })
                                    }
                                } else {
                                    format!("{}+{}", res.class(), tree_rel)
                                };
                                let o0 = outs.iter().find(|o| o.res.matches(&res)).unwrap_or(&outs[0]);
                                rep.violation(
                                    &format!("model:{}:{}→{}", call, expected.join("|"), observed),
                                    self.witness(
                                        op,
                                        vec![
                                            ("expected", J::Arr(outs.iter().map(|o| J::s(o.res.describe())).collect())),
                                            ("got", J::s(res.short())),
                                            ("state_reference_vs_real", J::s(o0.post.diff(&real))),
                                        ],
                                    ),
                                );
                            }
                            self.model.t = real.clone();
                            self.diverged = true;
                        },
                    }
                },
            }
        }
        if !ok {
            self.model.t = real;
        }
        self.history.push(op.clone());
        ok
    }

    fn api_crosscheck(&self, snap: &Snapshot, op: &Op, call: &str, rep: &mut Report) {
        let keys: Vec<String> = snap.entries.iter().map(|e| ps(&e.key)).collect();
        for k in &keys {
            if !self.mem.exists(k) {
                rep.violation(&format!("inv:api-exists-false-for-stored-key(after={})", call), self.witness(op, vec![("key", J::s(k))]));
            }
        }
        if let Ok(all) = self.mem.all_paths("/") {
            let mut a: Vec<String> = all.iter().map(|p| ps(p)).collect();
            a.sort();
            let mut b: Vec<String> = keys.iter().filter(|k| *k != "/").cloned().collect();
            b.sort();
            if a != b {
                rep.violation(
                    &format!("inv:all_paths(/)-differs-from-keys(after={})", call),
                    self.witness(op, vec![("all_paths", J::strs(&a)), ("keys", J::strs(&b))]),
                );
            }
        }
        let disp = format!("{}", self.mem);
        let listed: Vec<String> = disp
            .split("[fs]:")
            .nth(1)
            .and_then(|x| x.split("[files]:").next())
            .unwrap_or("")
            .lines()
            .filter(|l| !l.trim().is_empty())
            .map(|l| l.split(" -> ").next().unwrap().to_string())
            .collect();
        let mut b = keys.clone();
        b.sort();
        let mut l = listed.clone();
        l.sort();
        if l != b {
            rep.violation(&format!("inv:display-differs-from-keys(after={})", call), self.witness(op, vec![("display", J::strs(&l)), ("keys", J::strs(&b))]));
        }
        rep.count("api_crosschecks", 1);
    }
}

// ---------------------------------------------------------------------------------------------
// Alphabets
// ---------------------------------------------------------------------------------------------
pub fn namespace(names: &[&str], depth: usize) -> Vec<String> {
    let mut out = vec![];
    let mut frontier = vec![String::new()];
    for _ in 0..depth {
        let mut next = vec![];
        for f in &frontier {
            for n in names {
                next.push(format!("{}/{}", f, n));
            }
        }
        out.extend(next.iter().cloned());
        frontier = next;
    }
    out
}

pub fn spellings(a: &str, cwd: &str) -> Vec<String> {
    let mut v = vec![a.to_string()];
    let rel = if a == cwd { ".".to_string() } else { ref_relative(a, cwd) };
    if !rel.starts_with('/') {
        v.push(rel.clone());
        v.push(format!("./{}", rel));
    }
    if a != "/" {
        v.push(format!("{}/", a));
        v.push(format!("{}/.", a));
        v.push(a.replacen('/', "//", 1));
        v.push(format!("{}/../{}", a, base_of(a)));
        v.push(format!("file://{}", a));
        if a == HOME {
            v.push("~".into());
        } else if is_under(a, HOME) {
            v.push(format!("~{}", &a[HOME.len()..]));
            v.push(format!("$HOME{}", &a[HOME.len()..]));
            v.push(format!("${{HOME}}{}", &a[HOME.len()..]));
        }
    }
    v
}

/// The finite alphabet of the state sweep: (op, expand successors?)
pub fn sweep_alphabet(paths: &[String], thorough: bool) -> (Vec<(Op, bool)>, Vec<Op>) {
    let mut muts: Vec<(Op, bool)> = vec![];
    let mut queries: Vec<Op> = vec![];
    let mut all: Vec<String> = vec!["/".to_string()];
    all.extend(paths.iter().cloned());
    for p in &all {
        let p = p.clone();
        muts.push((Op::MkdirP(p.clone()), true));
        muts.push((Op::Mkfile(p.clone()), true));
        muts.push((Op::WriteAll(p.clone(), b"x".to_vec()), true));
        muts.push((Op::AppendAll(p.clone(), b"y".to_vec()), thorough));
        muts.push((Op::Remove(p.clone()), true));
        muts.push((Op::RemoveAll(p.clone()), true));
        muts.push((Op::SetCwd(p.clone()), true));
        muts.push((Op::MkdirM(p.clone(), 0o700), false));
        muts.push((Op::MkfileM(p.clone(), 0o600), false));
        muts.push((Op::Chmod(p.clone(), 0o750), false));
        muts.push((Op::Chown(p.clone(), 5, 6), false));
        muts.push((Op::WriteLines(p.clone(), vec!["l1".into(), "l2".into()]), false));
        muts.push((Op::AppendLine(p.clone(), "z".into()), false));
        muts.push((Op::AppendLines(p.clone(), vec!["u".into(), "v".into()]), false));
        muts.push((Op::WriteH(p.clone(), b"h".to_vec()), false));
        muts.push((Op::AppendH(p.clone(), b"k".to_vec()), false));
        muts.push((Op::ChmodB(p.clone(), ChmodO { all: None, dirs: None, files: None, sym: Some("a:go-rwx".into()), recurse: None, follow: false }), false));
        muts.push((Op::ChownB(p.clone(), ChownO { uid: Some(7), gid: None, recurse: Some(false), follow: false }), false));
        for q in &all {
            muts.push((Op::MoveP(p.clone(), q.clone()), true));
            muts.push((Op::Copy(p.clone(), q.clone()), true));
            muts.push((Op::Symlink(p.clone(), q.clone()), true));
            muts.push((Op::CopyB(p.clone(), q.clone(), CopyMode::Files(0o600), false), false));
        }
        for mk in [
            Op::ReadAll as fn(String) -> Op,
            Op::ReadLines,
            Op::ReadBytes,
            Op::Readlink,
            Op::ReadlinkAbs,
            Op::Abs,
            Op::Exists,
            Op::IsDir,
            Op::IsFile,
            Op::IsSymlink,
            Op::IsSymlinkDir,
            Op::IsSymlinkFile,
            Op::IsExec,
            Op::IsReadonly,
            Op::Mode,
            Op::Owner,
            Op::Uid,
            Op::Gid,
            Op::Entry,
            Op::Paths,
            Op::Dirs,
            Op::Files,
            Op::AllPaths,
            Op::AllDirs,
            Op::AllFiles,
            Op::Entries,
        ] {
            queries.push(mk(p.clone()));
        }
    }
    queries.push(Op::Cwd);
    queries.push(Op::Root);
    (muts, queries)
}

fn tree_hash(t: &NTree) -> u64 {
    let mut s = String::new();
    s.push_str(&t.cwd);
    for (k, n) in &t.nodes {
        s.push('|');
        s.push_str(k);
        s.push_str(&format!("{:?}", n));
    }
    hash64(&s)
}

/// Model-only breadth-first enumeration of reachable reference states with the shortest history to each
pub fn enumerate_states(muts: &[(Op, bool)], cap: usize) -> (Vec<(NTree, Vec<Op>)>, bool) {
    let mut seen: HashMap<u64, ()> = HashMap::new();
    let mut out: Vec<(NTree, Vec<Op>)> = vec![];
    let mut q: VecDeque<(NTree, Vec<Op>)> = VecDeque::new();
    let start = NTree::fresh();
    seen.insert(tree_hash(&start), ());
    q.push_back((start, vec![]));
    let mut complete = true;
    while let Some((t, h)) = q.pop_front() {
        crate::infra::progress();
        out.push((t.clone(), h.clone()));
        if out.len() >= cap {
            complete = q.is_empty();
            break;
        }
        let m = tree_from(&t, HOME);
        for (op, expand) in muts {
            if !*expand {
                continue;
            }
            if let Expect::Outcomes(outs) = m.step(op) {
                for o in outs {
                    if o.post != t && seen.insert(tree_hash(&o.post), ()).is_none() {
                        let mut nh = h.clone();
                        nh.push(op.clone());
                        q.push_back((o.post, nh));
                    }
                }
            }
        }
    }
    (out, complete)
}

fn replay(history: &[Op], mode: Mode, rep: &mut Report) -> LockStep {
    let mut ls = LockStep::new(mode);
    let mut scratch = Report::new();
    for op in history {
        ls.apply(op, &mut scratch);
    }
    rep.evals += 0;
    ls
}

pub fn sweep(ctx: &Ctx, rep: &mut Report, mode: Mode, extra_ops: &dyn Fn(&NTree) -> Vec<Op>) {
    let names: Vec<&str> = if ctx.thorough { vec!["a", "b", "c"] } else { vec!["a", "b"] };
    let paths = namespace(&names, 2);
    let (muts, queries) = sweep_alphabet(&paths, ctx.thorough);
    let cap = if ctx.thorough { 40_000 } else { 1_500 };
    let (states, complete) = enumerate_states(&muts, cap);
    if ctx.shard == 0 {
        rep.count("sweep_states", states.len() as u64);
        rep.count("sweep_alphabet_mutators", muts.len() as u64);
        rep.count("sweep_alphabet_queries", queries.len() as u64);
        if !complete {
            rep.notes.push(format!("state sweep stopped at the cap of {} reference states: not a fixpoint", cap));
        } else {
            rep.notes.push(format!("state sweep reached the fixpoint of the namespace: {} reference states", states.len()));
        }
    }
    if !complete {
        rep.exhaustive = false;
    }
    for (si, (state, hist)) in states.iter().enumerate() {
        if !ctx.mine(si as u64) {
            continue;
        }
        // bring a real instance into the state; a state only reachable through the either-branch the
        // implementation does not take cannot be materialised and is skipped (counted)
        let base = replay(hist, mode, rep);
        if base.model.t != *state {
            rep.count("sweep_states_not_materialisable(either-branch not taken by the implementation)", 1);
            continue;
        }
        rep.count("sweep_states_explored", 1);
        // all queries on one instance (they must not change anything: the lock-step checks that too)
        let mut ls = base;
        let mut spell_ops = vec![];
        for q in &queries {
            ls.apply(q, rep);
        }
        // spellings of path arguments for a rotating subset
        for (i, p) in paths.iter().enumerate() {
            for (j, sp) in spellings(p, &state.cwd).into_iter().enumerate().skip(1) {
                match (i + j + si) % 6 {
                    0 => spell_ops.push(Op::Exists(sp)),
                    1 => spell_ops.push(Op::Mkfile(sp)),
                    2 => spell_ops.push(Op::Remove(sp)),
                    3 => spell_ops.push(Op::ReadAll(sp)),
                    4 => spell_ops.push(Op::MkdirP(sp)),
                    _ => spell_ops.push(Op::WriteAll(sp, b"s".to_vec())),
                }
            }
        }
        let extra = extra_ops(state);
        for op in muts.iter().map(|(o, _)| o).chain(spell_ops.iter()).chain(extra.iter()) {
            let mut ls = replay(hist, mode, rep);
            ls.apply(op, rep);
            if rep.want_sample() && matches!(op, Op::MoveP(..)) && hist.len() >= 3 && !ls.diverged {
                rep.sample(J::obj(vec![
                    ("history", J::Arr(hist.iter().map(|o| J::s(o.describe())).collect())),
                    ("call", J::s(op.describe())),
                    ("post_state", ls.model.t.to_json()),
                ]));
            }
        }
    }
}

// ---------------------------------------------------------------------------------------------
// Random histories
// ---------------------------------------------------------------------------------------------
pub fn random_data(rng: &mut Rng, uid: &mut u64) -> Vec<u8> {
    *uid += 1;
    let tag = format!("#{}#", uid);
    match rng.below(10) {
        0 => vec![],
        1 => vec![b'q'],
        // carriage returns that are not the one before a newline: a line keeps them, only "\r\n" and "\n" end it
        8 => format!("c1\r\nc2\r\r\n{}\r", tag).into_bytes(),
        9 => format!("{}\rmid\r\n\r", tag).into_bytes(),
        2 => format!("é€😀{}", tag).into_bytes(),
        3 => {
            let mut v = vec![0xff, 0xfe];
            v.extend(tag.bytes());
            v
        },
        4 => format!("l1\nl2\r\n{}\n", tag).into_bytes(),
        5 => {
            let mut v = tag.clone().into_bytes();
            v.resize(4096, b'z');
            v
        },
        6 => format!("{}\n", tag).into_bytes(),
        _ => tag.into_bytes(),
    }
}

pub fn random_op(rng: &mut Rng, paths: &[String], cwd: &str, uid: &mut u64) -> Op {
    let mut pick = |rng: &mut Rng| -> String {
        let p = if rng.chance(1, 12) { "/".to_string() } else { rng.pick(paths).clone() };
        if rng.chance(1, 4) {
            let sp = spellings(&p, cwd);
            sp[rng.below(sp.len())].clone()
        } else {
            p
        }
    };
    let p = pick(rng);
    match rng.below(60) {
        0..=4 => Op::MkdirP(p),
        5 => Op::MkdirM(p, *rng.pick(&[0o700u32, 0o755, 0o511, 0o7777, 0o40000, 0o40700, 0])),
        6..=8 => Op::Mkfile(p),
        9 => Op::MkfileM(p, *rng.pick(&[0o600u32, 0o444, 0o755, 0])),
        10..=13 => Op::WriteAll(p, random_data(rng, uid)),
        14..=16 => Op::AppendAll(p, random_data(rng, uid)),
        17 => Op::WriteLines(p, (0..rng.below(4)).map(|i| if rng.chance(1, 6) { String::new() } else { format!("w{}-{}", uid, i) }).collect()),
        18 => Op::AppendLine(p, if rng.chance(1, 6) { String::new() } else { format!("al{}", uid) }),
        19 => Op::AppendLines(p, (0..rng.below(3)).map(|i| format!("as{}-{}", uid, i)).collect()),
        20 => Op::WriteH(p, random_data(rng, uid)),
        21 => Op::AppendH(p, random_data(rng, uid)),
        22..=24 => Op::Remove(p),
        25..=26 => Op::RemoveAll(p),
        27..=31 => Op::MoveP(p, pick(rng)),
        32..=35 => Op::Copy(p, pick(rng)),
        36 => Op::CopyB(p, pick(rng), rng.pick(&[
            CopyMode::None,
            CopyMode::All(0o700),
            CopyMode::Dirs(0o711),
            CopyMode::Files(0o600),
            CopyMode::Then(Box::new(CopyMode::Dirs(0o711)), Box::new(CopyMode::All(0o750))),
            CopyMode::Then(Box::new(CopyMode::Files(0o600)), Box::new(CopyMode::Dirs(0o755))),
        ]).clone(), rng.chance(1, 3)),
        37..=40 => Op::Symlink(p, if rng.chance(1, 3) { format!("../{}", rng.pick(&["a", "b", "c"])) } else { pick(rng) }),
        41 => Op::Chmod(p, *rng.pick(&[0o700u32, 0o644, 0o555, 0o777])),
        42 => Op::ChmodB(
            p,
            ChmodO {
                all: None,
                dirs: if rng.chance(1, 3) { Some(0o711) } else { None },
                files: if rng.chance(1, 3) { Some(0o640) } else { None },
                // (symbolic expressions under follow are judged by C11, where the known finding about them lives)
                sym: if rng.chance(1, 2) { Some(rng.pick(&["a:a+x", "f:u-w", "d:go=rx", "f:a+r,f:a-wx", "a:go-rwx", "a:a-rwx", "d:a-rwx"]).to_string()) } else { None },
                recurse: *rng.pick(&[None, Some(true), Some(false)]),
                follow: false,
            },
        ),
        43 => Op::Chown(p, rng.below(4) as u32, rng.below(4) as u32),
        44 => Op::ChownB(p, ChownO { uid: if rng.chance(1, 2) { Some(9) } else { None }, gid: if rng.chance(1, 2) { Some(8) } else { None }, recurse: *rng.pick(&[None, Some(false)]), follow: rng.chance(1, 4) }),
        45..=46 => Op::SetCwd(p),
        47 => Op::ReadAll(p),
        48 => Op::ReadLines(p),
        49 => Op::ReadBytes(p),
        50 => Op::Readlink(p),
        51 => Op::ReadlinkAbs(p),
        52 => Op::Entry(p),
        53 => Op::AllPaths(p),
        54 => Op::Paths(p),
        55 => Op::Files(p),
        56 => Op::Dirs(p),
        57 => Op::Entries(p),
        58 => Op::Mode(p),
        _ => Op::IsDir(p),
    }
}

pub fn random_histories(ctx: &Ctx, rep: &mut Report, mode: Mode) {
    let plain = namespace(&["a", "b", "c"], 3);
    // every second history uses a name with an extension next to the same name without it (a destination computed
    // once from the full name and once from the stem only disagrees there)
    let dotted = namespace(&["a", "a.x", "b"], 3);
    let mut rng = ctx.rng("histories");
    let n_hist = if ctx.thorough { 4000 } else { 48 } / ctx.shards.max(1) + 1;
    let mut uid = (ctx.shard as u64) << 40;
    rep.exhaustive = false;
    for h in 0..n_hist {
        let len = 200 + rng.below(if ctx.thorough { 1300 } else { 500 });
        let mut ls = LockStep::new(mode);
        let paths = if h % 2 == 0 { &plain } else { &dotted };
        for _ in 0..len {
            let op = random_op(&mut rng, paths, &ls.model.t.cwd.clone(), &mut uid);
            ls.apply(&op, rep);
            // keep witnesses short: restart the history once it has diverged or grown large
            if ls.history.len() > 60 && rng.chance(1, 40) {
                // compress: the current state continues, the history is re-rooted at a snapshot
                ls.history.clear();
                ls.history.push(Op::Abs(format!("<state re-rooted at {} nodes; replay from the listed pre_state>", ls.model.t.nodes.len())));
            }
        }
        rep.count("random_histories", 1);
        if rep.want_sample() && h == 0 {
            rep.sample(J::obj(vec![
                ("random_history_tail", J::Arr(ls.history.iter().rev().take(8).rev().map(|o| J::s(o.describe())).collect())),
                ("final_state", ls.model.t.to_json()),
            ]));
        }
    }
}

fn c01(ctx: &Ctx, rep: &mut Report) {
    std::env::set_var("HOME", HOME);
    sweep(ctx, rep, Mode::Model, &|_| vec![]);
    random_histories(ctx, rep, Mode::Model);
}

/// arguments outside the documented domain, from every state of the sweep
fn invalid_ops(t: &NTree) -> Vec<Op> {
    let mut v = vec![];
    let keys: Vec<String> = t.nodes.keys().cloned().collect();
    for k in &keys {
        v.push(Op::MoveP(k.clone(), format!("{}/x/y", k)));
        v.push(Op::MoveP(k.clone(), format!("{}/new", k)));
        v.push(Op::Copy(k.clone(), format!("{}/x", k)));
        v.push(Op::MoveP("/".into(), k.clone()));
        v.push(Op::MoveP(k.clone(), "/missing/parent".into()));
        v.push(Op::Symlink(format!("{}/l", k), k.clone()));
        v.push(Op::Mkfile(format!("{}/under/x", k)));
        v.push(Op::WriteAll(format!("{}/w", k), b"w".to_vec()));
        v.push(Op::MkdirP(format!("{}/d/e", k)));
        v.push(Op::Remove(format!("{}/..", k)));
        v.push(Op::MoveP(k.clone(), "..".into()));
    }
    for p in ["", "..", "../..", "/..", "~", "~~", "$", "${}", "a//b/../..", "/a/../../b", "."] {
        let p = p.to_string();
        v.push(Op::Mkfile(p.clone()));
        v.push(Op::MkdirP(p.clone()));
        v.push(Op::Remove(p.clone()));
        v.push(Op::RemoveAll(p.clone()));
        v.push(Op::MoveP(p.clone(), "/b".into()));
        v.push(Op::MoveP("/a".into(), p.clone()));
        v.push(Op::Copy("/a".into(), p.clone()));
        v.push(Op::Symlink(p.clone(), "/a".into()));
        v.push(Op::Symlink("/b".into(), p.clone()));
        v.push(Op::SetCwd(p.clone()));
        v.push(Op::WriteAll(p.clone(), b"i".to_vec()));
    }
    v
}

/// a write()/append() handle that outlives what it was opened on: the path is removed, replaced by something
/// else or moved before the handle is flushed and dropped; the walker runs after every step
fn stale_handle_scenarios(ctx: &Ctx, rep: &mut Report) {
    use std::io::Write;
    let replacements: Vec<(&str, Vec<Op>)> = vec![
        ("kept", vec![]),
        ("removed", vec![Op::Remove("/a/f".into())]),
        ("dir", vec![Op::Remove("/a/f".into()), Op::MkdirP("/a/f/sub".into())]),
        ("link", vec![Op::Remove("/a/f".into()), Op::Symlink("/a/f".into(), "/a/g".into())]),
        ("link-to-dir", vec![Op::Remove("/a/f".into()), Op::Symlink("/a/f".into(), "/a".into())]),
        ("file-again", vec![Op::Remove("/a/f".into()), Op::WriteAll("/a/f".into(), b"new".to_vec())]),
        ("moved-away", vec![Op::MoveP("/a/f".into(), "/b".into())]),
        ("parent-moved", vec![Op::MoveP("/a".into(), "/c".into())]),
        ("parent-removed", vec![Op::RemoveAll("/a".into())]),
        ("parent-replaced-by-file", vec![Op::RemoveAll("/a".into()), Op::WriteAll("/a".into(), b"p".to_vec())]),
        ("dir-then-moved", vec![Op::Remove("/a/f".into()), Op::MkdirP("/a/f".into()), Op::MoveP("/a/f".into(), "/m".into()), Op::Remove("/m".into())]),
        ("copied-over", vec![Op::Copy("/a/g".into(), "/a/f".into())]),
    ];
    let afters: Vec<Op> = vec![Op::ReadAll("/a/f".into()), Op::Remove("/a/f".into()), Op::RemoveAll("/a".into()), Op::MoveP("/a/f".into(), "/z".into()), Op::Mkfile("/a/f".into()), Op::WriteAll("/m".into(), b"x".to_vec()), Op::AllPaths("/".into())];
    let mut idx = 0u64;
    for append in [false, true] {
        for pre_exists in [false, true] {
            for (rname, repl) in &replacements {
                for chunks in [0usize, 1, 2] {
                    for flush_first in [false, true] {
                        idx += 1;
                        if !ctx.mine(idx) {
                            continue;
                        }
                        let mut ls = LockStep::new(Mode::Invariants);
                        let mut scratch = Report::new();
                        ls.apply(&Op::MkdirP("/a".into()), &mut scratch);
                        ls.apply(&Op::WriteAll("/a/g".into(), b"gg".to_vec()), &mut scratch);
                        if pre_exists {
                            ls.apply(&Op::WriteAll("/a/f".into(), b"old".to_vec()), &mut scratch);
                        }
                        let what = format!("{}-handle({},{})", if append { "append" } else { "write" }, if pre_exists { "file" } else { "absent" }, rname);
                        set_case(&format!("inv:stale-{}:returns→stalls", what), &what);
                        let h = if append { ls.mem.append("/a/f") } else { ls.mem.write("/a/f") };
                        let mut h = match h {
                            Ok(h) => h,
                            Err(_) => continue,
                        };
                        for _ in 0..chunks {
                            let _ = h.write_all(b"stale");
                        }
                        if flush_first {
                            let _ = h.flush();
                        }
                        for op in repl {
                            ls.apply(op, rep);
                        }
                        let _ = h.write_all(b"!");
                        let _ = h.flush();
                        let check = |ls: &LockStep, stage: &str, rep: &mut Report| {
                            rep.eval();
                            rep.count("invariant_walks", 1);
                            rep.key_str(&format!("stale|{}|{}", what, stage));
                            let snap = ls.mem.verif_snapshot();
                            for (id, detail) in check_invariants(&snap) {
                                rep.violation(
                                    &format!("inv:{}(after={} of a stale {})", id, stage, what),
                                    J::obj(vec![("scenario", J::s(&what)), ("replacement_calls", J::Arr(repl.iter().map(|o| J::s(o.describe())).collect())), ("stage", J::s(stage)), ("detail", J::s(detail)), ("state", memfs_ntree(&snap).to_json())]),
                                );
                                break;
                            }
                        };
                        check(&ls, "flush", rep);
                        drop(h);
                        check(&ls, "drop", rep);
                        // whatever was left behind must not resurface through later calls either
                        ls.model.t = memfs_ntree(&ls.mem.verif_snapshot());
                        for a in &afters {
                            ls.apply(a, rep);
                        }
                    }
                }
            }
        }
    }
}

fn c03(ctx: &Ctx, rep: &mut Report) {
    std::env::set_var("HOME", HOME);
    stale_handle_scenarios(ctx, rep);
    sweep(ctx, rep, Mode::Invariants, &invalid_ops);
    random_histories(ctx, rep, Mode::Invariants);
    super::conc::quiescence_integrity(ctx, rep);
}

#[allow(dead_code)]
fn unused(_: BTreeMap<u8, u8>) {}
