// C12: no call panics, hangs or wedges the filesystem, whatever its arguments
use std::{
    io::{Read, Seek, SeekFrom, Write},
    path::Path,
};

use rivia::prelude::*;

use super::Prop;
use crate::{fsops::*, infra::*, refs::for_all_strings};

pub fn props() -> Vec<Prop> {
    vec![Prop {
        id: "C12",
        run: c12,
        tools: None,
        rule: "every public Memfs method (all Op variants: creators, writers, readers, remove/move/copy/symlink, chmod/chown builders, queries, listings, entries) is called under catch_unwind with every string up to length 3 (quick) / 4 (thorough) over the 13-symbol hostile alphabet {/ . ~ $ { } : a e-acute euro emoji space backslash} (two-path methods: every ordered pair of strings up to length 2 / 3) from 3 prepared states, plus long '..' chains, 4 KiB names, seeded random Unicode, extreme modes (0, 0o7777, u32::MAX) and ids; read/write/append handles get extreme seek/read scripts. After every call that returned Err or panicked - and after every call that reported success and changed the state - a probe (mkfile + exists + remove of a fresh path, lock not poisoned, C03 walker) must succeed. A CPU/wall watchdog turns a call that does not return into a hang record, a counting allocator turns unbounded allocation into a blow-up record. The 21 PathExt helpers, sys::* path functions, StringExt, IteratorExt (extreme indices) and PeekableExt run over the same strings / all pairs. Run in the checked-arithmetic profile and again in a wrapping-arithmetic (release-like) profile. distinct_nontrivial = distinct (function, string class(es), outcome class) triples. Later additions: a second exhaustive alphabet of characters whose case mapping changes their UTF-8 length; a 70-deep prepared state with an empty directory at the bottom (deeper than the traversal's cap of 50 open directories); links whose recorded kind is stale; links to nothing that point at each other and a link to itself; every single-path method and a set of follow-option calls on every prepared path; single calls that create / list / chmod / move / remove 6000 levels at once (copy: 400) on a thread with a 256 KiB stack - a worker killed by stack exhaustion inside such a call leaves a crash record that is reported like a hang.",
        assumptions: &["a hang is decided on CPU time burnt inside one call (20 s) or on 90 s without progress and without CPU use; anything else that stalls is inconclusive"],
        shards_quick: 8,
        shards_thorough: 16,
        budget_quick_s: 300,
        budget_thorough_s: 1800,
        min_evals: 100_000,
        exhaustive_capable: true,
    }]
}

pub const ALPHA: [&str; 13] = ["/", ".", "~", "$", "{", "}", ":", "a", "é", "€", "😀", " ", "\\"];

fn sclass(s: &str) -> String {
    let mut v = vec![];
    if s.is_empty() {
        return "empty".into();
    }
    if s.contains('~') {
        v.push("tilde");
    }
    if s.contains('$') {
        v.push("dollar");
    }
    if s.contains("..") {
        v.push("dotdot");
    }
    if s.contains("//") {
        v.push("dblsep");
    }
    if !s.is_ascii() {
        v.push("multibyte");
    }
    if s.len() > 1000 {
        v.push("long");
    }
    if s.starts_with('/') {
        v.push("abs");
    }
    if v.is_empty() {
        "plain".into()
    } else {
        v.join("+")
    }
}

fn build_state(k: usize) -> Memfs {
    let m = Memfs::new();
    if k >= 1 {
        let _ = m.mkdir_p("/a/b");
        let _ = m.write_all("/a/f", b"data");
        let _ = m.symlink("/l", "/a");
        let _ = m.symlink("/a/lf", "/a/f");
        let _ = m.mkdir_p("/é/€");
        let _ = m.write_all("/ ", b"space");
        // links whose recorded kind is stale: the directory behind /stl became a file, the file behind /stf a directory
        let _ = m.mkdir_p("/st");
        let _ = m.symlink("/stl", "/st");
        let _ = m.remove("/st");
        let _ = m.mkfile("/st");
        // a link whose target is itself a link that lives in another directory (a copy under follow has to recreate
        // it below a destination directory that does not exist yet)
        let _ = m.mkdir_m("/ch", 0o700);
        let _ = m.symlink("/ch/mid", "/a/f");
        let _ = m.mkdir_p("/cdir/sub");
        let _ = m.symlink("/cdir/link", "/ch/mid");
        let _ = m.symlink("/cdir/sub/dlink", "/l");
        // links that lead back to themselves without a directory in between: two links to nothing that point at each
        // other (the first is made while the second does not exist yet) and a link to itself. Nothing can be listed
        // behind them, but every snapshot of a branch that holds them has to get past them
        let _ = m.mkdir_p("/cyc");
        let _ = m.symlink("/cyc/l1", "/cyc/l2");
        let _ = m.symlink("/cyc/l2", "/cyc/l1");
        let _ = m.symlink("/cyc/self", "/cyc/self");
        // ... and a link to the root itself next to them: followed, it is an entry without a file name
        let _ = m.symlink("/cyc/toroot", "/");
        let _ = m.mkdir_p("/cyc/zdir"); // (a second member for the group the followed link is sorted into)
        let _ = m.mkfile("/sf");
        let _ = m.symlink("/stf", "/sf");
        let _ = m.remove("/sf");
        let _ = m.mkdir_p("/sf/x");
    }
    if k == 3 {
        // deeper than the traversal's cap of 50 open directories: an empty directory at the bottom, a file and a
        // link half way down
        let mut p = String::from("/deep");
        for i in 0..70 {
            p.push_str("/d");
            if i == 55 {
                let _ = m.mkdir_p(&p);
                let _ = m.write_all(format!("{}/f", p), b"x");
                let _ = m.mkdir_p(format!("{}/empty", p));
            }
        }
        let _ = m.mkdir_p(&p);
        let _ = m.symlink("/deep/d/d/l", "/a/f");
        return m;
    }
    if k >= 2 {
        let _ = m.set_cwd("/a/b");
        let _ = m.symlink("/a/b/up", "/a");
        let _ = m.mkdir_p("/a/~");
        let _ = m.mkdir_p("/a/$");
    }
    m
}

fn probe(m: &Memfs, call: &str, rep: &mut Report, wit: &J) {
    let ok = catch(|| {
        let p = "/__probe__";
        let a = m.mkfile(p).is_ok();
        let b = m.exists(p);
        let c = m.remove(p).is_ok();
        let d = !m.exists(p);
        a && b && c && d
    });
    let snap = catch(|| m.verif_snapshot());
    let healthy = matches!(ok, Ok(true)) && snap.as_ref().map(|s| !s.poisoned && check_invariants(s).is_empty()).unwrap_or(false);
    rep.count("probes", 1);
    if !healthy {
        rep.violation(
            &format!("total:{}:usable-afterwards→wedged", call),
            J::obj(vec![("call", wit.clone()), ("probe", J::s(format!("{:?}", ok))), ("poisoned", J::s(format!("{:?}", snap.as_ref().map(|s| s.poisoned).map_err(|e| e.clone()))))]),
        );
    }
}

fn ops_one(p: &str) -> Vec<Op> {
    let p = p.to_string();
    vec![
        Op::MkdirP(p.clone()),
        Op::MkdirM(p.clone(), 0o7777),
        Op::MkdirM(p.clone(), u32::MAX),
        Op::Mkfile(p.clone()),
        Op::MkfileM(p.clone(), 0),
        Op::MkfileM(p.clone(), u32::MAX),
        Op::WriteAll(p.clone(), vec![0xff, 0x00, b'\n']),
        Op::WriteLines(p.clone(), vec![String::new(), "\n".into(), "é".into()]),
        Op::AppendAll(p.clone(), vec![]),
        Op::AppendLine(p.clone(), "\r\n".into()),
        Op::AppendLines(p.clone(), vec![]),
        Op::WriteH(p.clone(), b"h".to_vec()),
        Op::AppendH(p.clone(), b"k".to_vec()),
        Op::ReadAll(p.clone()),
        Op::ReadLines(p.clone()),
        Op::ReadBytes(p.clone()),
        Op::Remove(p.clone()),
        Op::RemoveAll(p.clone()),
        Op::Readlink(p.clone()),
        Op::ReadlinkAbs(p.clone()),
        Op::Chmod(p.clone(), 0),
        Op::Chmod(p.clone(), u32::MAX),
        Op::ChmodB(p.clone(), ChmodO { all: None, dirs: Some(0o7777), files: Some(1), sym: Some(p.clone()), recurse: None, follow: true }),
        Op::ChmodB(p.clone(), ChmodO { all: None, dirs: None, files: None, sym: Some("a:a+rwx,".into()), recurse: Some(false), follow: false }),
        Op::Chown(p.clone(), u32::MAX, 0),
        Op::ChownB(p.clone(), ChownO { uid: None, gid: Some(u32::MAX), recurse: Some(true), follow: true }),
        Op::SetCwd(p.clone()),
        Op::Abs(p.clone()),
        Op::Exists(p.clone()),
        Op::IsDir(p.clone()),
        Op::IsFile(p.clone()),
        Op::IsSymlink(p.clone()),
        Op::IsSymlinkDir(p.clone()),
        Op::IsSymlinkFile(p.clone()),
        Op::IsExec(p.clone()),
        Op::IsReadonly(p.clone()),
        Op::Mode(p.clone()),
        Op::Owner(p.clone()),
        Op::Uid(p.clone()),
        Op::Gid(p.clone()),
        Op::Entry(p.clone()),
        Op::Paths(p.clone()),
        Op::Dirs(p.clone()),
        Op::Files(p.clone()),
        Op::AllPaths(p.clone()),
        Op::AllDirs(p.clone()),
        Op::AllFiles(p.clone()),
        Op::Entries(p.clone()),
        Op::ConfigDir(p.clone()),
    ]
}
fn ops_two(a: &str, b: &str) -> Vec<Op> {
    let (a, b) = (a.to_string(), b.to_string());
    vec![
        Op::MoveP(a.clone(), b.clone()),
        Op::Copy(a.clone(), b.clone()),
        Op::CopyB(a.clone(), b.clone(), CopyMode::All(u32::MAX), true),
        Op::Symlink(a.clone(), b.clone()),
    ]
}

/// every builder option that makes a call walk through links
fn follow_ops(p: &str) -> Vec<Op> {
    let p = p.to_string();
    let mut v = vec![];
    for recurse in [None, Some(false), Some(true)] {
        v.push(Op::ChmodB(p.clone(), ChmodO { all: Some(0o750), dirs: None, files: None, sym: None, recurse, follow: true }));
        v.push(Op::ChmodB(p.clone(), ChmodO { all: None, dirs: None, files: None, sym: Some("a:a+r".into()), recurse, follow: true }));
        v.push(Op::ChownB(p.clone(), ChownO { uid: Some(5), gid: Some(6), recurse, follow: true }));
    }
    for m in [CopyMode::None, CopyMode::All(0o700)] {
        v.push(Op::CopyB(p.clone(), "/cpy".into(), m.clone(), true));
        v.push(Op::CopyB("/a".into(), p.clone(), m, true));
    }
    v
}

fn run_ops(state_k: usize, ops: &[Op], classes: &str, rep: &mut Report) {
    let mut m = build_state(state_k);
    let mut base = m.verif_snapshot();
    for op in ops {
        rep.eval();
        let call = format!("{}({})", op.name(), classes);
        set_case(&format!("total:{}:returns→does-not-return", call), &format!("state {} {:?}", state_k, op));
        let r = exec(&m, op);
        rep.key_str(&format!("{}→{}", call, r.class()));
        let wit = J::obj(vec![("state", J::Int(state_k as i64)), ("call", J::s(op.describe())), ("result", J::s(r.short()))]);
        match &r {
            Res::Panic(msg) => {
                rep.violation(&format!("total:{}:returns→panic", call), J::obj(vec![("state", J::Int(state_k as i64)), ("call", J::s(op.describe())), ("panic", J::s(msg))]));
                probe(&m, &call, rep, &wit);
            },
            Res::Err(_) => probe(&m, &call, rep, &wit),
            _ => {},
        }
        if !op.is_query() {
            // keep every call on the prepared state
            let now = m.verif_snapshot();
            if now != base {
                // a call that reported success and changed something must leave a usable instance as well
                // (remove_all of a spelling of the root is the kind of call that could take too much with it)
                if !matches!(r, Res::Err(_) | Res::Panic(_)) {
                    rep.count("probes_after_successful_changes", 1);
                    probe(&m, &call, rep, &wit);
                }
                m = build_state(state_k);
                base = m.verif_snapshot();
            }
        }
    }
}

/// ONE call that has to create (or take away, or copy) thousands of levels at once, on a thread with a small stack (256
/// KiB - what a thread pool hands out): bounded stack use is part of "returns". The prepared 70-deep state is built
/// level by level and would not notice a call that recurses once per missing level. A stack overflow kills the worker;
/// the record it leaves (infra::install_crash_handler) is reported like a hang.
fn deep_single_calls(rep: &mut Report) {
    let levels = 6000;
    let deep = format!("/dp{}", "/d".repeat(levels));
    let deeper = format!("{}{}", deep, "/e".repeat(8));
    let m = Memfs::new();
    let steps: Vec<(&str, Box<dyn Fn(&Memfs) -> bool + Send + Sync>)> = vec![
        ("mkdir_p(6000-missing-levels)", Box::new({ let p = deep.clone(); move |m: &Memfs| m.mkdir_p(&p).is_ok() })),
        ("mkdir_m(8-more-levels)", Box::new({ let p = deeper.clone(); move |m: &Memfs| m.mkdir_m(&p, 0o700).is_ok() })),
        ("write_all(at-the-bottom)", Box::new({ let p = format!("{}/f", deeper); move |m: &Memfs| m.write_all(&p, b"x").is_ok() })),
        ("all_paths(deep-tree)", Box::new(|m: &Memfs| m.all_paths("/dp").map(|v| v.len() > 6000).unwrap_or(false))),
        ("chmod(deep-tree)", Box::new(|m: &Memfs| m.chmod("/dp", 0o750).is_ok())),
        ("move_p(deep-tree)", Box::new(|m: &Memfs| m.move_p("/dp", "/dp3").is_ok())),
        // (copy re-creates every missing ancestor for every entry: cubic in the depth, so a shallower tree of its own)
        ("copy(400-levels-at-once)", Box::new(|m: &Memfs| m.mkdir_p(format!("/cp{}", "/d".repeat(400))).is_ok() && m.copy("/cp", "/cp2").is_ok() && m.exists(format!("/cp2{}", "/d".repeat(400))))),
        ("remove_all(deep-tree)", Box::new(|m: &Memfs| m.remove_all("/dp3").is_ok() && m.remove_all("/cp2").is_ok() && !m.exists("/dp3"))),
    ];
    for (name, f) in steps {
        rep.eval();
        let call = format!("{}(deep-single-call)", name);
        set_case(&format!("total:{}:returns→stack-exhausted-or-killed", call), &format!("one call on a fresh Memfs, thread stack 256 KiB, {} levels", levels));
        CRASH_ATTRIBUTION.store(true, std::sync::atomic::Ordering::SeqCst);
        let mref = &m;
        let fref = &f;
        let r = std::thread::scope(|sc| std::thread::Builder::new().stack_size(256 * 1024).spawn_scoped(sc, move || catch(|| fref(mref))).map(|h| h.join()));
        rep.count("deep_single_calls", 1);
        match r {
            Ok(Ok(Ok(true))) => rep.key_str(&format!("{}→ok", call)),
            Ok(Ok(Ok(false))) => rep.violation(&format!("total:{}:Ok→Err-or-short", call), J::s(&call)),
            Ok(Ok(Err(msg))) => rep.violation(&format!("total:{}:returns→panic", call), J::s(msg)),
            _ => rep.inconclusive("could not run a deep single call on its own thread"),
        }
    }
    probe(&m, "deep-single-calls", rep, &J::Null);
}

fn handle_scripts(rep: &mut Report) {
    let m = build_state(1);
    let offs: [i64; 9] = [i64::MIN, i64::MIN + 1, -5, -1, 0, 1, 5, i64::MAX - 1, i64::MAX];
    for a in offs {
        for b in offs {
            for which in 0..3 {
                rep.eval();
                let sig = format!("handle-script({})", ["read", "write", "append"][which]);
                set_case(&format!("total:{}:returns→does-not-return", sig), &format!("{} {}", a, b));
                let r = catch(|| match which {
                    0 => {
                        let mut h = m.read("/a/f").unwrap();
                        let mut buf = [0u8; 8];
                        let _ = h.seek(SeekFrom::End(a));
                        let _ = h.read(&mut buf);
                        let _ = h.seek(SeekFrom::Current(b));
                        let _ = h.read(&mut buf);
                        let _ = h.seek(SeekFrom::Start(a as u64));
                        let mut v = vec![];
                        let _ = h.read_to_end(&mut v);
                        let _ = h.stream_position();
                    },
                    1 => {
                        let mut h = m.write("/a/w").unwrap();
                        let _ = h.write(&[]);
                        let _ = h.write_all(&vec![b'x'; (a.unsigned_abs() % 70000) as usize]);
                        let _ = h.flush();
                        let _ = m.remove("/a/w");
                        let _ = h.write_all(b"after remove");
                        let _ = h.flush();
                    },
                    _ => {
                        let mut h = m.append("/a/f").unwrap();
                        let _ = h.write_all(&vec![b'y'; (b.unsigned_abs() % 300) as usize]);
                        let _ = m.move_p("/a/f", "/a/f2");
                        let _ = h.flush();
                        drop(h);
                        let _ = m.move_p("/a/f2", "/a/f");
                    },
                });
                rep.key_str(&format!("{}|{}|{}", sig, a.signum(), b.signum()));
                if let Err(msg) = r {
                    rep.violation(&format!("total:{}:returns→panic", sig), J::obj(vec![("offsets", J::s(format!("{} {}", a, b))), ("panic", J::s(msg))]));
                }
            }
        }
    }
    probe(&m, "handle-scripts", rep, &J::Null);
}

macro_rules! total {
    ($rep:expr, $name:expr, $cls:expr, $wit:expr, $body:expr) => {{
        $rep.eval();
        match catch(|| {
            let _ = $body;
        }) {
            Ok(()) => $rep.key_str(&format!("{}({})", $name, $cls)),
            Err(m) => $rep.violation(&format!("total:{}({}):returns→panic", $name, $cls), J::obj(vec![("input", $wit), ("panic", J::s(&m))])),
        }
    }};
}

fn helpers_one(s: &str, rep: &mut Report) {
    let p = Path::new(s);
    let c = sclass(s);
    let w = || J::s(s);
    set_case("total:path-helper:returns→does-not-return", s);
    total!(rep, "PathExt::base", c, w(), p.base());
    total!(rep, "PathExt::clean", c, w(), p.clean());
    total!(rep, "PathExt::dir", c, w(), p.dir());
    total!(rep, "PathExt::expand", c, w(), p.expand());
    total!(rep, "PathExt::ext", c, w(), p.ext());
    total!(rep, "PathExt::first", c, w(), p.first());
    total!(rep, "PathExt::is_empty", c, w(), PathExt::is_empty(p));
    total!(rep, "PathExt::last", c, w(), p.last());
    total!(rep, "PathExt::name", c, w(), p.name());
    total!(rep, "PathExt::trim_ext", c, w(), p.trim_ext());
    total!(rep, "PathExt::trim_first", c, w(), p.trim_first());
    total!(rep, "PathExt::trim_last", c, w(), p.trim_last());
    total!(rep, "PathExt::trim_protocol", c, w(), p.trim_protocol());
    total!(rep, "sys::parse_paths", c, w(), sys::parse_paths(s));
    total!(rep, "sys::is_empty", c, w(), sys::is_empty(s));
    total!(rep, "StringExt::size", c, w(), s.size());
    total!(rep, "StringExt::to_bool", c, w(), s.to_bool());
    total!(rep, "ToStringExt(Path)", c, w(), p.to_string());
    total!(rep, "components.first_result", c, w(), p.components().first_result());
    total!(rep, "components.last_result", c, w(), p.components().last_result());
    total!(rep, "components.single", c, w(), p.components().single());
    for n in [isize::MIN, -2, -1, 0, 1, 2, isize::MAX] {
        total!(rep, "components.drop", c, w(), p.components().drop(n).count());
        for r in [isize::MIN, -1, 0, 1, isize::MAX] {
            total!(rep, "components.slice", c, w(), p.components().slice(n, r).count());
        }
    }
    total!(rep, "chars.take_while_p", c, w(), {
        let mut it = s.chars().peekable();
        let a: String = it.take_while_p(|x| *x != '$').collect();
        (a, it.next())
    });
}
fn helpers_two(a: &str, b: &str, rep: &mut Report) {
    let p = Path::new(a);
    let c = format!("{},{}", sclass(a), sclass(b));
    let w = || J::obj(vec![("a", J::s(a)), ("b", J::s(b))]);
    total!(rep, "PathExt::concat", c, w(), p.concat(b));
    total!(rep, "PathExt::has", c, w(), p.has(b));
    total!(rep, "PathExt::has_prefix", c, w(), p.has_prefix(b));
    total!(rep, "PathExt::has_suffix", c, w(), p.has_suffix(b));
    total!(rep, "PathExt::mash", c, w(), p.mash(b));
    total!(rep, "PathExt::relative", c, w(), p.relative(b));
    total!(rep, "PathExt::trim_prefix", c, w(), p.trim_prefix(b));
    total!(rep, "PathExt::trim_suffix", c, w(), p.trim_suffix(b));
    total!(rep, "StringExt::trim_suffix", c, w(), StringExt::trim_suffix(a, b));
}

fn c12(ctx: &Ctx, rep: &mut Report) {
    // every call here is a monitored call of the code under test: a worker killed inside one (abort, stack exhaustion)
    // leaves a crash record naming it
    CRASH_ATTRIBUTION.store(true, std::sync::atomic::Ordering::SeqCst);
    std::env::set_var("HOME", "/a");
    let max1 = if ctx.thorough { 4 } else { 3 };
    let max2 = if ctx.thorough { 3 } else { 2 };
    let mut singles: Vec<String> = vec![];
    for_all_strings(&ALPHA, max1, |_, s| singles.push(s.to_string()));
    let mut shorts: Vec<String> = vec![];
    for_all_strings(&ALPHA, max2, |_, s| shorts.push(s.to_string()));
    // extras: long chains, long names, prepared-state paths with noise
    let mut extras: Vec<String> = vec![
        "../".repeat(300),
        format!("/{}", "../".repeat(300)),
        "a/".repeat(600),
        "x".repeat(4096),
        format!("/a/{}", "é".repeat(2048)),
        format!("~/{}", "b/".repeat(100)),
        "$HOME/$HOME/${HOME}".into(),
        "${".into(),
        "${HOME".into(),
        "$HOME}".into(),
        "file://".into(),
        "FILE:///a/f".into(),
        "https://a//b".into(),
        "/a/f/".into(),
        "/a/f/.".into(),
        "/a/f/..".into(),
        "/l/x".into(),
        "/a/lf/x".into(),
        "/a/b/up/b/up/b".into(),
        "\u{0}".into(),
        "a\u{0}b".into(),
        "\n".into(),
        "\u{202e}\u{feff}".into(),
    ];
    let mut rng = ctx.rng("c12");
    for _ in 0..(if ctx.thorough { 4000 } else { 400 }) {
        let n = 1 + rng.below(24);
        let s: String = (0..n)
            .map(|_| match rng.below(8) {
                0 => '/',
                1 => '.',
                2 => '~',
                3 => '$',
                4 => char::from_u32(0x20 + rng.below(0x5f) as u32).unwrap(),
                5 => char::from_u32(0xa0 + rng.below(0x2000) as u32).unwrap_or('é'),
                6 => char::from_u32(0x1f300 + rng.below(0x300) as u32).unwrap_or('😀'),
                _ => 'a',
            })
            .collect();
        extras.push(s);
    }
    // characters whose lower / upper case form has a different UTF-8 length (a byte index computed on a case-mapped
    // copy does not fit the original), around the separators and scheme punctuation that the resolvers cut at
    let case_alpha = ["/", ":", "\u{130}", "\u{23a}", "\u{212a}", "\u{1e9e}", "ß", "\u{fb01}", "a", "F"];
    let mut cased: Vec<String> = vec![];
    for_all_strings(&case_alpha, if ctx.thorough { 5 } else { 4 }, |_, s| cased.push(s.to_string()));
    let mut idx = 0u64;
    for s in &cased {
        idx += 1;
        if !ctx.mine(idx) {
            continue;
        }
        let cls = format!("casemap:{}", sclass(s));
        run_ops(0, &ops_one(s), &cls, rep);
        helpers_one(s, rep);
    }
    rep.count("case_mapping_strings", cased.len() as u64 / ctx.shards.max(1) as u64);
    // component-structured strings: names with (multi-byte) extensions followed by what Path drops (//, /., /), dot
    // names, schemes - longer than the character-level enumeration reaches
    let tokens = ["a", "é", "€b", ".", "..", "/", "//", "/.", "~", "$", "a.é", ".é", "é.€", "a..", "file:", "x:"];
    let mut structured: Vec<String> = vec![];
    for_all_strings(&tokens, if ctx.thorough { 4 } else { 3 }, |_, s| structured.push(s.to_string()));
    for s in &structured {
        idx += 1;
        if !ctx.mine(idx) {
            continue;
        }
        let cls = format!("tokens:{}", sclass(s));
        run_ops(0, &ops_one(s), &cls, rep);
        helpers_one(s, rep);
    }
    rep.count("component_structured_strings", structured.len() as u64 / ctx.shards.max(1) as u64);
    for s in singles.iter().chain(extras.iter()) {
        idx += 1;
        if !ctx.mine(idx) {
            continue;
        }
        let cls = sclass(s);
        for k in 0..3 {
            run_ops(k, &ops_one(s), &cls, rep);
        }
        helpers_one(s, rep);
    }
    for a in shorts.iter().chain(extras.iter().take(40)) {
        for b in shorts.iter().chain(extras.iter().take(12)) {
            idx += 1;
            if !ctx.mine(idx) {
                continue;
            }
            let cls = format!("{},{}", sclass(a), sclass(b));
            for k in 1..3 {
                run_ops(k, &ops_two(a, b), &cls, rep);
            }
            helpers_two(a, b, rep);
        }
    }
    // two-path methods on meaningful nestings
    if ctx.shard == 0 {
        let hot = ["/", "/a", "/a/b", "/a/f", "/l", "/a/lf", "/a/b/up", "/a/b/x/y", "/zz", "", "..", "/a/..", "/a/b/..", "/stl", "/stf", "/st", "/cdir", "/cdir/link", "/ch", "/cyc", "/cyc/l1", "/cyc/self", "/cyc/toroot"];
        for a in hot {
            for k in 1..3 {
                run_ops(k, &ops_one(a), &format!("prepared:{}", if a.starts_with("/st") { "stale-link" } else { "entry" }), rep);
                run_ops(k, &follow_ops(a), &format!("prepared-follow:{}", if a.starts_with("/st") { "stale-link" } else { "entry" }), rep);
            }
            for b in hot {
                for k in 1..3 {
                    run_ops(k, &ops_two(a, b), &format!("prepared:{},{}", sclass(a), sclass(b)), rep);
                }
            }
        }
        handle_scripts(rep);
        deep_single_calls(rep);
        // the deep tree: every single-path method on its root, its middle and its bottom, two-path methods out of it
        let bottom = format!("/deep{}", "/d".repeat(70));
        let middle = format!("/deep{}", "/d".repeat(56));
        for p in ["/deep", middle.as_str(), bottom.as_str(), "/"] {
            run_ops(3, &ops_one(p), &format!("deep-tree:{}", if p == "/deep" { "root" } else if p == "/" { "fs-root" } else if p.len() > 150 { "bottom" } else { "middle" }), rep);
            run_ops(3, &ops_two(p, "/copy"), "deep-tree,absent", rep);
            run_ops(3, &ops_two(p, "/a"), "deep-tree,dir", rep);
        }
    }
    if rep.want_sample() {
        rep.sample(J::obj(vec![("hostile_strings_exhaustive_up_to", J::Int(max1 as i64)), ("examples", J::strs(&singles[singles.len() / 2..singles.len() / 2 + 6])), ("pair_strings_up_to", J::Int(max2 as i64))]));
    }
    rep.count("profile_overflow_checks", if cfg!(debug_assertions) { 1 } else { 0 });
}
