// C09 (copy / move_p relational oracle), C10 (symlink laws), C11 (chmod / chown)
use std::collections::BTreeSet;

use rivia::prelude::*;

use super::{macros::{in_domain_state, through_link}, memfs::*, Prop};
use crate::{fsops::*, infra::*, model::*, refs::go_clean, stdside::*};

pub fn props() -> Vec<Prop> {
    vec![
        Prop {
            id: "C09",
            run: c09,
            tools: None,
            rule: "relational before/after oracle (no reference model): for every reference state of the bounded namespace (names {a,b}, depth 2; up to a state cap) x every ordered pair of paths (existing or not, nested or not, files / dirs / links, plus '/') x Copier options {none, chmod_all, chmod_dirs, chmod_files} x follow for copy, and x move_p: the complete snapshot before and after the call must satisfy the clauses of the statement (source untouched; every source entry present under dst or dst/<name> with same kind, bytes, link target; mode equal to the source's or the selected option for newly created entries; pre-existing entries kept; nothing outside the destination changed; no aliasing (write one side, re-read the other); move: source gone, destination == former subtree, rest unchanged; failed move: nothing changed). Memfs exhaustively, Stdfs on C02's domain through the std::fs disk observer. distinct_nontrivial = distinct (backend, operation, source class, destination class, relation, options, outcome) tuples. Later additions: sequences of chmod_* calls on one builder (the documented 'last call wins'); a copy whose destination root is the source root must change nothing; signatures of follow-copies carry +srclinks when the followed source tree contains links (recorded finding).",
            assumptions: &["owners are not part of the copy relation (the statement does not mention them)", "copy under follow of a dangling link is not judged", "the Stdfs half skips copies of a directory into its own subtree (recorded under C02)"],
            shards_quick: 8,
            shards_thorough: 16,
            budget_quick_s: 240,
            budget_thorough_s: 1500,
            min_evals: 10_000,
            exhaustive_capable: true,
        },
        Prop {
            id: "C10",
            run: c10,
            tools: None,
            rule: "for every (link position, target position) pair over 2 names up to depth 4 (quick) / 6 (thorough), target kind in {file, dir, absent, link-to-file, link-to-dir}, and both spellings of the target (absolute, relative to the link's directory): a fresh filesystem is prepared, symlink(link, target) is called and the laws of the statement are checked through the API (readlink_abs == abs(target); clean(dir(link)/readlink) == readlink_abs and readlink relative; is_symlink && !is_file && !is_dir; is_symlink_dir/file == kind of the target at creation; entry()/follow(true) swaps path and alt exactly once; remove / chmod / chown without follow act on the link and leave the target's snapshot unchanged; readlink/readlink_abs fail on every non-link). Both backends; on Stdfs additionally std::fs::read_link resolves to the same target. distinct_nontrivial = distinct (backend, depth(link), depth(target), relation, target kind, spelling) tuples. Later additions: clone()/upcast() of a followed entry; a second symlink() for the occupied location under six spellings of the link path (refused and unchanged, or Ok and the law holds for the new target); chown_b / chmod_b on the link with every recursion setting; on Stdfs the target-recording clauses for every target kind; chown of the link back to exactly the owner its target has; on Stdfs targets outside the sandbox (other top-level trees, the root, missing).",
            assumptions: &["on Stdfs, for targets that are missing or links themselves, the target-recording clauses (readlink_abs, the readlink navigation law, entry path/alt) are judged; the kind flags and the acts-on-the-link clauses only inside C02's domain", "readlink may be absolute only when the target is the link's own directory (C16)", "the Stdfs half runs as root (chown must be able to succeed)"],
            shards_quick: 8,
            shards_thorough: 16,
            budget_quick_s: 240,
            budget_thorough_s: 1500,
            min_evals: 3_000,
            exhaustive_capable: true,
        },
        Prop {
            id: "C11",
            run: c11,
            tools: None,
            rule: "oracle 1: reference evaluation of the documented grammar [dfa]:[ugoa]+[-+=][rwx]+ (comma repeatable) against chmod_b(p).sym(expr).exec() + mode(p) on a file, a directory and a link for every well-formed single clause (945) x 64 (quick) / all 512 (thorough) start modes, double clauses (sample / all first x 64 second), clearly malformed expressions (error and mode unchanged), octal all/dirs/files; type bits unchanged; is_exec/is_readonly == predicates on mode(). oracle 2: for reference states of the bounded namespace x builder option records (all/dirs/files octal, sym, recurse/no_recurse, follow; chown uid/gid/owner, recurse, follow) the complete post snapshot must equal the reference's changed-set (exactly the targeted entries, symlinks themselves never change under chmod). Memfs exhaustively; Stdfs (as root) on C02's domain. distinct_nontrivial = distinct (backend, clause shape or option record class, entry kind, outcome class) tuples. Later additions: octal values that coincide with a link's nominal mode and the default modes (0777, 0755, 0644); owners of links on the real backend and mixed owners before a chown; one worker ends by giving up root and chmods trees whose directories it owns but cannot list (0300, 0000).",
            assumptions: &[
                "expressions the implementation accepts although the strict grammar rejects them (repeated target letters, empty target) are not generated; malformed = missing ':' / operator / permissions or unknown letters",
                "a malformed later clause is not judged (the statement only fixes the first clause)",
                "octal 0 is exercised and reported separately (known finding)",
            ],
            shards_quick: 8,
            shards_thorough: 16,
            budget_quick_s: 240,
            budget_thorough_s: 1500,
            min_evals: 50_000,
            exhaustive_capable: true,
        },
    ]
}

// =============================================================================================
// C09
// =============================================================================================
fn kind_name(n: &NNode) -> &'static str {
    match n.kind {
        NKind::File(_) => "file",
        NKind::Dir => "dir",
        NKind::Link { .. } => "link",
    }
}
fn same_payload(a: &NNode, b: &NNode) -> bool {
    match (&a.kind, &b.kind) {
        (NKind::File(x), NKind::File(y)) => x == y,
        (NKind::Dir, NKind::Dir) => true,
        (NKind::Link { target: x, .. }, NKind::Link { target: y, .. }) => x == y,
        _ => false,
    }
}
/// with_owner == false is the real-filesystem observation: owners are not compared, and a link is compared by
/// its resolved target only (whether it currently resolves to a directory changes when its target moves)
fn eq_mod_owner(a: &NNode, b: &NNode, with_owner: bool) -> bool {
    let kind_eq = match (&a.kind, &b.kind) {
        (NKind::Link { target: x, .. }, NKind::Link { target: y, .. }) if !with_owner => x == y,
        (x, y) => x == y,
    };
    kind_eq && a.mode == b.mode && (!with_owner || (a.uid == b.uid && a.gid == b.gid))
}

/// relation violations of one copy/move; sa/da clean absolute virtual paths
fn relation(op: &Op, pre: &NTree, post: &NTree, res: &Res, sa: &str, da: &str, with_owner: bool) -> Vec<(String, String)> {
    let mut v = vec![];
    let is_move = matches!(op, Op::MoveP(..));
    let (cmode, follow) = match op {
        Op::CopyB(_, _, m, f) => (m.effective(), *f),
        _ => (CopyMode::None, false),
    };
    let droot = if pre.is_real_dir(da) { join(da, base_of(sa)) } else { da.to_string() };
    if is_move {
        if res.is_err() {
            if pre != post {
                v.push(("failed-move-changes-nothing→changed".into(), pre.diff(post)));
            }
            return v;
        }
        if sa == droot {
            if pre != post {
                v.push(("move-onto-itself-changes-nothing→changed".into(), pre.diff(post)));
            }
            return v;
        }
        let src: Vec<String> = pre.subtree(sa);
        for k in &src {
            if post.nodes.contains_key(k) && !(k == &droot || is_under(k, &droot)) {
                v.push(("source-gone→still-there".into(), k.clone()));
                break;
            }
        }
        let want: BTreeSet<String> = src.iter().map(|k| format!("{}{}", droot, &k[sa.len()..])).collect();
        let have: BTreeSet<String> = post.subtree(&droot).into_iter().collect();
        if want != have {
            v.push(("destination-equals-former-subtree→different-names".into(), format!("want {:?} have {:?}", want, have)));
        } else {
            for k in &src {
                let d = format!("{}{}", droot, &k[sa.len()..]);
                if !with_owner && matches!(pre.nodes[k].kind, NKind::Link { .. }) && matches!(post.nodes[&d].kind, NKind::Link { .. }) {
                    continue; // a relative link text is resolved by the OS from the new location
                }
                if !eq_mod_owner(&pre.nodes[k], &post.nodes[&d], with_owner) {
                    v.push(("destination-equals-former-subtree→entry-differs".into(), format!("{} → {}: {:?} vs {:?}", k, d, pre.nodes[k], post.nodes[&d])));
                    break;
                }
            }
        }
        for (k, n) in &pre.nodes {
            let in_src = k == sa || is_under(k, sa);
            let in_dst = *k == droot || is_under(k, &droot);
            if !in_src && !in_dst && post.nodes.get(k).map(|m| !eq_mod_owner(n, m, with_owner)).unwrap_or(true) {
                v.push(("rest-unchanged→changed".into(), k.clone()));
                break;
            }
        }
        for k in post.nodes.keys() {
            if !pre.nodes.contains_key(k) && !(*k == droot || is_under(k, &droot)) {
                v.push(("rest-unchanged→new-entry".into(), k.clone()));
                break;
            }
        }
        if with_owner && pre.cwd != post.cwd {
            // (the process cwd of the real filesystem follows a moved directory: kernel semantics)
            v.push(("rest-unchanged→cwd".into(), post.cwd.clone()));
        }
        return v;
    }
    // copy
    if res.is_err() {
        return v; // a failed copy carries no obligation in the statement
    }
    if sa == da {
        if pre != post {
            v.push(("copy-onto-itself-changes-nothing→changed".into(), pre.diff(post)));
        }
        return v;
    }
    // the source root under follow
    let (sroot, via_link) = match (&pre.nodes.get(sa).map(|n| n.kind.clone()), follow) {
        (Some(NKind::Link { target, .. }), true) => (target.clone(), true),
        _ => (sa.to_string(), false),
    };
    if via_link && !pre.nodes.contains_key(&sroot) {
        return v;
    }
    let droot = if via_link && pre.is_real_dir(da) { join(da, base_of(&sroot)) } else { droot };
    // copied into its own directory: every entry lands on itself, the source has to stay untouched
    if droot == sroot {
        if pre != post {
            v.push(("copy-onto-itself-changes-nothing→changed".into(), pre.diff(post)));
        }
        return v;
    }
    // source untouched
    for k in pre.subtree(&sroot) {
        let inside_dst = k == droot || is_under(&k, &droot);
        if !inside_dst && post.nodes.get(&k).map(|m| !eq_mod_owner(&pre.nodes[&k], m, with_owner)).unwrap_or(true) {
            v.push(("source-untouched→changed".into(), k.clone()));
            break;
        }
    }
    // every source entry has its copy
    let (dmode, fmode) = match cmode {
        CopyMode::None => (None, None),
        CopyMode::All(m) => (Some(m), Some(m)),
        CopyMode::Dirs(m) => (Some(m), None),
        CopyMode::Files(m) => (None, Some(m)),
        CopyMode::Then(..) => unreachable!(),
    };
    // under follow the file or directory behind a link is copied under the TARGET's name; where that lands (and
    // what it collides with) is not stated, so a source tree containing links is only held to the other clauses
    let follow_with_links = follow && pre.subtree(&sroot).iter().any(|k| matches!(pre.nodes[k].kind, NKind::Link { .. }));
    // in-memory backend: the only links a follow copy makes are those for a source link whose target is itself a
    // link - recreated as a link to THAT link's target (documented in the code). Wherever it is placed, a new link
    // below the destination therefore points at what some such second link points at, never at a link of the source
    if follow_with_links && with_owner {
        // (the traversal follows links out of the source subtree, so the first link may live anywhere)
        let second_targets: BTreeSet<String> = pre
            .nodes
            .keys()
            .filter_map(|k| match &pre.nodes[k].kind {
                NKind::Link { target, .. } => match pre.nodes.get(target).map(|n| &n.kind) {
                    Some(NKind::Link { target: t2, .. }) => Some(t2.clone()),
                    _ => None,
                },
                _ => None,
            })
            .collect();
        for (k, n) in &post.nodes {
            if let NKind::Link { target, .. } = &n.kind {
                if !pre.nodes.contains_key(k) && (*k == droot || is_under(k, &droot)) && !second_targets.contains(target) {
                    v.push(("link-made-by-a-follow-copy-points-at-the-second-link's-target→elsewhere".into(), format!("{} -> {} (allowed: {:?})", k, target, second_targets)));
                    break;
                }
            }
        }
    }
    for k in pre.subtree(&sroot) {
        if follow_with_links {
            // what is behind the links is misplaced (recorded finding) and may collide with anything, but a copy
            // that reports success still has to have made the directories and files the source tree itself holds
            let s = &pre.nodes[&k];
            if matches!(s.kind, NKind::Link { .. }) || k == droot || is_under(&k, &droot) || pre.subtree(&sroot).iter().any(|a| is_under(&k, a) && matches!(pre.nodes[a].kind, NKind::Link { .. })) {
                continue;
            }
            let d = format!("{}{}", droot, if k == sroot { "" } else if sroot == "/" { k.as_str() } else { &k[sroot.len()..] });
            let present = match (&s.kind, post.nodes.get(&d).map(|n| &n.kind)) {
                (NKind::Dir, Some(NKind::Dir)) | (NKind::File(_), Some(NKind::File(_))) => true,
                // (something misplaced may sit there instead: only absence is judged)
                (_, Some(_)) => true,
                (_, None) => false,
            };
            if !present {
                v.push((format!("copy-of-every-{}-present→missing", kind_name(s)), format!("{} → {}", k, d)));
                break;
            }
            continue;
        }
        if k == droot || is_under(&k, &droot) {
            continue; // copying into its own subtree: only the entries that existed at the start count
        }
        let d = format!("{}{}", droot, if k == sroot { "" } else if sroot == "/" { k.as_str() } else { &k[sroot.len()..] });
        let s = &pre.nodes[&k];
        if follow && matches!(s.kind, NKind::Link { .. }) {
            continue; // where the file or directory behind a followed link is placed is not stated
        }
        let want: Option<NNode> = match (&s.kind, follow) {
            (NKind::Link { target, .. }, true) => pre.nodes.get(target).cloned(), // the file/dir behind the link
            _ => Some(s.clone()),
        };
        let want = match want {
            Some(w) if !(follow && matches!(w.kind, NKind::Link { .. })) => w,
            _ => continue, // dangling or chained under follow: not judged
        };
        match post.nodes.get(&d) {
            None => {
                v.push((format!("copy-of-every-{}-present→missing", kind_name(s)), format!("{} → {}", k, d)));
                break;
            },
            Some(c) => {
                if !same_payload(&want, c) {
                    v.push((format!("copy-of-{}-same-kind-content-target→differs", kind_name(&want)), format!("{} → {}: {:?} vs {:?}", k, d, want.kind, c.kind)));
                    break;
                }
                let existed = pre.nodes.contains_key(&d);
                if !existed && !matches!(c.kind, NKind::Link { .. }) {
                    let sel = if matches!(c.kind, NKind::Dir) { dmode } else { fmode };
                    let expect = match sel {
                        Some(m) => (c.mode & !0o7777) | m,
                        None => want.mode,
                    };
                    if c.mode != expect {
                        v.push((
                            format!("new-{}-mode-{}→differs", kind_name(c), if sel.is_some() { "selected-option" } else { "same-as-source" }),
                            format!("{} → {}: mode {:o} expected {:o}", k, d, c.mode, expect),
                        ));
                        break;
                    }
                }
            },
        }
    }
    // pre-existing entries are kept; nothing outside the destination changes
    for (k, n) in &pre.nodes {
        match post.nodes.get(k) {
            None => {
                v.push(("pre-existing-entries-kept→removed".into(), k.clone()));
                break;
            },
            Some(m) => {
                let in_dst = *k == droot || is_under(k, &droot);
                if !in_dst && !eq_mod_owner(n, m, with_owner) {
                    v.push(("outside-destination-unchanged→changed".into(), format!("{}: {:?} vs {:?}", k, n, m)));
                    break;
                }
            },
        }
    }
    for k in post.nodes.keys() {
        if !pre.nodes.contains_key(k) && !(*k == droot || is_under(k, &droot) || is_under(&droot, k)) {
            v.push(("outside-destination-unchanged→new-entry".into(), k.clone()));
            break;
        }
    }
    if pre.cwd != post.cwd {
        v.push(("outside-destination-unchanged→cwd".into(), post.cwd.clone()));
    }
    // directories that had to be created above the destination: a chmod option that selects directories gives them
    // its mode, any other option leaves them to mirror the directory the source lives in (it never selects them)
    if !follow {
        // (a directory source brings them along with its own mode - they are made in one go with its copy -, a file or
        // link source with the mode of the directory it lives in; the statement fixes neither, both are what the
        // code documents, and before sticky bits were put on the states the two could not be told apart)
        let src_parent_mode = if pre.is_real_dir(&sroot) {
            pre.nodes.get(&sroot).map(|n| n.mode & 0o7777)
        } else {
            parent_of(&sroot).and_then(|p| pre.nodes.get(&p)).map(|n| n.mode & 0o7777)
        };
        for (k, n) in &post.nodes {
            if !pre.nodes.contains_key(k) && is_under(&droot, k) && matches!(n.kind, NKind::Dir) {
                let expect = dmode.or(src_parent_mode);
                if let Some(e) = expect {
                    if n.mode & 0o7777 != e {
                        v.push((
                            format!("created-parent-directory-mode-{}→differs", if dmode.is_some() { "selected-option" } else { "mirrors-source" }),
                            format!("{} mode {:o} expected {:o}", k, n.mode & 0o7777, e),
                        ));
                        break;
                    }
                }
            }
        }
    }
    v
}

/// copy under follow of a source tree that itself contains links (the class of the recorded finding: what is behind
/// such a link is copied under the TARGET's path, wherever that lands)
fn follow_srclinks(op: &Op, pre: &NTree, sa: &str) -> bool {
    let follow = matches!(op, Op::CopyB(_, _, _, true));
    if !follow {
        return false;
    }
    let sroot = match pre.nodes.get(sa).map(|n| n.kind.clone()) {
        Some(NKind::Link { target, .. }) => target,
        _ => sa.to_string(),
    };
    pre.nodes.contains_key(&sroot) && pre.subtree(&sroot).iter().any(|k| matches!(pre.nodes[k].kind, NKind::Link { .. }))
}

fn c09_ops(all: &[String], thorough: bool) -> Vec<Op> {
    let mut v = vec![];
    for s in all {
        for d in all {
            v.push(Op::MoveP(s.clone(), d.clone()));
            v.push(Op::Copy(s.clone(), d.clone()));
            for m in [CopyMode::All(0o700), CopyMode::Dirs(0o711), CopyMode::Files(0o600)] {
                v.push(Op::CopyB(s.clone(), d.clone(), m, false));
            }
            // option sequences on one builder: the later chmod_* call replaces the earlier one
            let b = |m: CopyMode| Box::new(m);
            v.push(Op::CopyB(s.clone(), d.clone(), CopyMode::Then(b(CopyMode::Dirs(0o711)), b(CopyMode::All(0o750))), false));
            v.push(Op::CopyB(s.clone(), d.clone(), CopyMode::Then(b(CopyMode::Files(0o611)), b(CopyMode::All(0o750))), false));
            if thorough {
                v.push(Op::CopyB(s.clone(), d.clone(), CopyMode::Then(b(CopyMode::All(0o750)), b(CopyMode::Dirs(0o711))), false));
                v.push(Op::CopyB(s.clone(), d.clone(), CopyMode::Then(b(CopyMode::Dirs(0o711)), b(CopyMode::Files(0o611))), false));
                v.push(Op::CopyB(s.clone(), d.clone(), CopyMode::Then(b(CopyMode::Files(0o611)), b(CopyMode::Dirs(0o711))), true));
            }
            v.push(Op::CopyB(s.clone(), d.clone(), CopyMode::None, true));
            if thorough {
                v.push(Op::CopyB(s.clone(), d.clone(), CopyMode::All(0o750), true));
            }
        }
    }
    v
}

fn c09(ctx: &Ctx, rep: &mut Report) {
    std::env::set_var("HOME", HOME);
    let paths = namespace(&["a", "b"], 2);
    let (muts, _) = sweep_alphabet(&paths, false);
    let cap = if ctx.thorough { 20_000 } else { 1_200 };
    let (states, complete) = enumerate_states(&muts, cap);
    if !complete {
        rep.exhaustive = false;
        if ctx.shard == 0 {
            rep.notes.push(format!("state enumeration stopped at the cap of {} reference states", cap));
        }
    }
    let mut all: Vec<String> = vec!["/".into()];
    all.extend(paths.iter().cloned());
    all.push("/zz".into());
    all.push("/zz/new".into());
    let ops = c09_ops(&all, ctx.thorough);
    let (sb, root) = Sandbox::nested("c09");
    for (si, (state, hist)) in states.iter().enumerate() {
        if !ctx.mine(si as u64) {
            continue;
        }
        let model = tree_from(state, HOME);
        for op in &ops {
            let pth = op.paths();
            let (sa, da) = (go_clean(pth[0]), go_clean(pth[1]));
            let cls = format!("{}{}", arg_classes(state, &model, op), if follow_srclinks(op, state, &sa) { "+srclinks" } else { "" });
            // ---- Memfs
            let mut ls = LockStep::new(Mode::Model);
            let mut scratch = Report::new();
            for h in hist {
                ls.apply(h, &mut scratch);
            }
            if ls.model.t != *state {
                rep.count("states_not_materialisable", 1);
                break;
            }
            rep.eval();
            // every eighth state also carries the sticky bit on its directories and a set-id bit on its files in
            // Memfs (as on disk below): a mode is carried over whole; the relation then starts from what is observed
            let special_m = si % 8 == 6;
            let observed_pre;
            let state_m: &NTree = if special_m {
                for (k, n) in state.nodes.iter() {
                    let add = match n.kind {
                        NKind::Dir if k != "/" => 0o1000,
                        NKind::File(_) => if k.len() % 2 == 0 { 0o4000 } else { 0o2000 },
                        _ => 0,
                    };
                    if add != 0 {
                        let _ = ls.mem.chmod_b(k).and_then(|c| c.all((n.mode & 0o7777) | add).no_recurse().exec());
                    }
                }
                rep.count("memfs_calls_on_states_with_sticky_and_set_id_bits", 1);
                observed_pre = memfs_ntree(&ls.mem.verif_snapshot());
                &observed_pre
            } else {
                state
            };
            set_case(&format!("rel:{}({}):returns→stalls", op.name(), cls), &format!("{:?} {:?}", hist, op));
            let res = exec(&ls.mem, op);
            let post = memfs_ntree(&ls.mem.verif_snapshot());
            rep.key_str(&format!("memfs|{}|{}|{}{}", op.name(), cls, res.class(), if special_m { "|special-bits" } else { "" }));
            let mut viol = relation(op, state_m, &post, &res, &sa, &da, true);
            // aliasing probe: change a copied/moved file through one name, the other must not follow
            if !res.is_err() && viol.is_empty() {
                if let Some((f_src, f_dst)) = state.subtree(&sa).iter().find_map(|k| {
                    let droot = if state.is_real_dir(&da) { join(&da, base_of(&sa)) } else { da.clone() };
                    let d = format!("{}{}", droot, &k[sa.len()..]);
                    if matches!(post.nodes.get(&d), Some(NNode { kind: NKind::File(_), .. })) && matches!(state.nodes.get(k), Some(NNode { kind: NKind::File(_), .. })) && d != *k {
                        Some((k.clone(), d))
                    } else {
                        None
                    }
                }) {
                    let before = exec(&ls.mem, &Op::ReadBytes(f_src.clone()));
                    let _ = exec(&ls.mem, &Op::AppendAll(f_dst.clone(), b"-probe".to_vec()));
                    let after = exec(&ls.mem, &Op::ReadBytes(f_src.clone()));
                    if !matches!(op, Op::MoveP(..)) && before != after {
                        viol.push(("independent-copy→aliased".into(), format!("appending to {} changed {}", f_dst, f_src)));
                    }
                    rep.count("aliasing_probes", 1);
                }
            }
            for (what, detail) in viol {
                rep.violation(
                    &format!("rel:{}(memfs,{}):{}", op.name(), cls, what),
                    J::obj(vec![
                        ("history", J::Arr(hist.iter().map(|o| J::s(o.describe())).collect())),
                        ("call", J::s(op.describe())),
                        ("result", J::s(res.short())),
                        ("pre_state", state_m.to_json()),
                        ("post_state", post.to_json()),
                        ("detail", J::s(detail)),
                    ]),
                );
            }
            if rep.want_sample() && !res.is_err() && matches!(op, Op::CopyB(..)) && state.nodes.len() > 3 && sa != "/" {
                rep.sample(J::obj(vec![("call", J::s(op.describe())), ("pre_state", state.to_json()), ("post_state", post.to_json())]));
            }
            // ---- Stdfs on the in-domain subset
            // the sandbox root has a real name and a real parent, the virtual "/" has neither
            // (states with links to nothing are taken along too - every fourth of them: a destination position that
            // holds such a link is neither a file to replace nor free, and nothing may be written through it)
            let only_dangling = !in_domain_state(state)
                && state.nodes.values().all(|n| match &n.kind {
                    NKind::Link { target, .. } => !matches!(state.nodes.get(target), Some(NNode { kind: NKind::Link { .. }, .. })) && !through_link(state, Some(target.as_str())),
                    _ => true,
                });
            let follow_op = matches!(op, Op::CopyB(_, _, _, true));
            if sa != "/" && ((si % 4 == 0 && in_domain_state(state)) || (si % 4 == 2 && only_dangling && !follow_op)) && !through_link(state, Some(&sa)) && !through_link(state, Some(&da)) {
                if only_dangling {
                    rep.count("real_calls_on_states_with_links_to_nothing", 1);
                }
                set_case(&format!("rel:{}(stdfs,{}):returns→stalls", op.name(), cls), &format!("{:?} {:?}", hist, op));
                // every second of these states is put on disk with the sticky bit on its directories and the set-id
                // bits on its files: a mode is carried over whole, not only its rwx part (the relation compares what
                // is observed before and after, so nothing else changes; the set-group-id bit on directories is left
                // out because the kernel hands it on to new sub-directories by itself)
                let special = si % 8 == 4;
                let decorated;
                let on_disk: &NTree = if special {
                    let mut d = state.clone();
                    for (k, n) in d.nodes.iter_mut() {
                        match n.kind {
                            NKind::Dir if k != "/" => n.mode |= 0o1000,
                            NKind::File(_) => n.mode |= if k.len() % 2 == 0 { 0o4000 } else { 0o2000 },
                            _ => {},
                        }
                    }
                    decorated = d;
                    &decorated
                } else {
                    state
                };
                if let Some((r, pre_d, post_d)) = stdfs_step(&root, on_disk, op) {
                    rep.eval();
                    if special {
                        rep.count("real_calls_on_states_with_sticky_and_set_id_bits", 1);
                    }
                    rep.key_str(&format!("stdfs|{}|{}|{}{}", op.name(), cls, r.class(), if special { "|special-bits" } else { "" }));
                    for (what, detail) in relation(op, &pre_d, &post_d, &r, &sa, &da, false) {
                        rep.violation(
                            &format!("rel:{}(stdfs,{}):{}", op.name(), cls, what),
                            J::obj(vec![("call", J::s(op.describe())), ("result", J::s(r.short())), ("pre_state", pre_d.to_json()), ("post_state", post_d.to_json()), ("detail", J::s(detail))]),
                        );
                    }
                }
            }
        }
    }
    drop(sb);
}

// =============================================================================================
// C10
// =============================================================================================
fn positions(depth: usize) -> Vec<String> {
    namespace(&["a", "b"], depth)
}

fn c10_scenario<V: VirtualFileSystem>(v: &V, backend: &str, root: &str, l: &str, t: &str, tkind: &str, spelling: &str, rep: &mut Report, snapshot: &dyn Fn() -> NTree, full: bool) {
    rep.eval();
    let ld = parent_of(l).unwrap();
    let rl = |p: &str| if p == "/" { root.to_string() } else { format!("{}{}", root, p) };
    let rel = if is_under(l, t) {
        "link-under-target"
    } else if parent_of(t).as_deref() == Some(ld.as_str()) {
        "siblings"
    } else if t == ld {
        "target-is-link-dir"
    } else {
        "elsewhere"
    };
    let key = format!("{}|dl{}|dt{}|{}|{}|{}", backend, l.matches('/').count(), t.matches('/').count(), rel, tkind, spelling);
    rep.key_str(&key);
    let ctxs = format!("link={} target={}({}) spelling={}", l, t, tkind, spelling);
    let mut bad = |what: &str, detail: String| {
        rep.violation(&format!("symlaw:{}({},{},{}):{}", backend, tkind, rel, spelling, what), J::obj(vec![("scenario", J::s(&ctxs)), ("detail", J::s(detail))]));
    };
    // prepare
    if v.mkdir_p(rl(&ld)).is_err() {
        return;
    }
    let other = rl("/zfile");
    let _ = v.write_all(&other, b"other");
    match tkind {
        "file" => {
            let _ = v.mkdir_p(rl(&parent_of(t).unwrap()));
            if v.write_all(rl(t), b"T").is_err() {
                return;
            }
        },
        "dir" => {
            if v.mkdir_p(rl(t)).is_err() {
                return;
            }
        },
        "link" => {
            let _ = v.mkdir_p(rl(&parent_of(t).unwrap()));
            if v.symlink(rl(t), &other).is_err() {
                return;
            }
        },
        "linkdir" => {
            // the target is itself a link, to a directory
            let _ = v.mkdir_p(rl(&parent_of(t).unwrap()));
            let _ = v.mkdir_p(rl("/zdir"));
            if v.symlink(rl(t), rl("/zdir")).is_err() {
                return;
            }
        },
        _ => {},
    }
    let targ = if spelling == "absolute" { rl(t) } else { ref_relative(&rl(t), &rl(&ld)) };
    if spelling != "absolute" && targ.starts_with('/') {
        return; // target == link dir has no relative spelling
    }
    let before = snapshot();
    set_case(&format!("symlaw:{}:returns→stalls", backend), &ctxs);
    let r = v.symlink(rl(l), &targ);
    match &r {
        Ok(p) if ps(p) == rl(l) => {},
        other => {
            bad("symlink-returns-link-path→other", format!("{:?}", other.as_ref().map(|p| ps(p)).map_err(|e| e.to_string())));
            return;
        },
    }
    let tabs = rl(t);
    if !full {
        // Stdfs outside C02's domain: only the creation step, seen through std::fs
        let raw = std::fs::read_link(rl(l)).map(|p| ps(&p)).unwrap_or_default();
        let abs = if raw.starts_with('/') { raw.clone() } else { format!("{}/{}", rl(&ld), raw) };
        if go_clean(&abs) != tabs {
            bad("std::fs::read_link-resolves-to-target→differs", format!("raw text {:?}", raw));
        }
        // the target-recording clauses do not depend on what the target is: readlink_abs is the abs of the target that
        // was given (not of whatever the target itself points to), and readlink navigates to it
        match v.readlink_abs(rl(l)) {
            Ok(p) if ps(&p) == tabs => {},
            other => bad("readlink_abs==abs(target)→differs", format!("{:?}", other.map(|p| ps(&p)).map_err(|e| e.to_string()))),
        }
        match v.readlink(rl(l)) {
            Ok(p) => {
                let r = ps(&p);
                let joined = if r.starts_with('/') { r.clone() } else { format!("{}/{}", rl(&ld), r) };
                if go_clean(&joined) != tabs {
                    bad("clean(dir(link)/readlink)==readlink_abs→differs", r);
                }
            },
            Err(e) => bad("readlink→Err", e.to_string()),
        }
        if tkind == "link" || tkind == "linkdir" {
            match v.entry(rl(l)) {
                Ok(e) => {
                    let v0 = entry_view(&e);
                    if v0.path != rl(l) || v0.alt != tabs || !v0.is_symlink {
                        bad("entry(path=link,alt=target)→differs", format!("{:?}", v0));
                    }
                    let f1 = entry_view(&e.clone().follow(true));
                    if f1.path != tabs || f1.alt != rl(l) {
                        bad("follow(true)-swaps-path-and-alt→differs", format!("{:?}", f1));
                    }
                },
                Err(e) => bad("entry(link)→Err", e.to_string()),
            }
        }
        return;
    }
    match v.readlink_abs(rl(l)) {
        Ok(p) if ps(&p) == tabs => {},
        other => bad("readlink_abs==abs(target)→differs", format!("{:?}", other.map(|p| ps(&p)).map_err(|e| e.to_string()))),
    }
    match v.readlink(rl(l)) {
        Ok(p) => {
            let r = ps(&p);
            if r.starts_with('/') && tabs != rl(&ld) {
                bad("readlink-is-relative→absolute", r.clone());
            }
            let joined = if r.starts_with('/') { r.clone() } else { format!("{}/{}", rl(&ld), r) };
            if go_clean(&joined) != tabs {
                bad("clean(dir(link)/readlink)==readlink_abs→differs", r);
            }
        },
        Err(e) => bad("readlink→Err", e.to_string()),
    }
    if !v.is_symlink(rl(l)) || v.is_file(rl(l)) || v.is_dir(rl(l)) {
        bad("is_symlink&&!is_file&&!is_dir→differs", format!("is_symlink={} is_file={} is_dir={}", v.is_symlink(rl(l)), v.is_file(rl(l)), v.is_dir(rl(l))));
    }
    // a target that is itself a link counts as what it points to (Entry: "symlinks that point to directories
    // report true"); judged on Memfs, where chains are not followed by an operating system
    let want_dir = tkind == "dir" || tkind == "linkdir";
    if tkind == "file" || tkind == "dir" || (backend != "stdfs" && (tkind == "link" || tkind == "linkdir")) {
        if v.is_symlink_dir(rl(l)) != want_dir || v.is_symlink_file(rl(l)) == want_dir {
            bad("is_symlink_dir/file==target-kind-at-creation→differs", format!("sd={} sf={}", v.is_symlink_dir(rl(l)), v.is_symlink_file(rl(l))));
        }
    }
    match v.entry(rl(l)) {
        Ok(e) => {
            let v0 = entry_view(&e);
            if v0.path != rl(l) || v0.alt != tabs || !v0.is_symlink || v0.following {
                bad("entry(path=link,alt=target)→differs", format!("{:?}", v0));
            }
            let f1 = entry_view(&e.clone().follow(true));
            if f1.path != tabs || f1.alt != rl(l) || !f1.following {
                bad("follow(true)-swaps-path-and-alt→differs", format!("{:?}", f1));
            }
            let f2 = entry_view(&e.clone().follow(true).follow(true));
            let f3 = entry_view(&e.clone().follow(true).follow(false));
            if f2 != f1 || f3 != f1 {
                bad("follow-swaps-exactly-once→swapped-again", format!("{:?} / {:?}", f2, f3));
            }
            let f0 = entry_view(&e.clone().follow(false));
            if f0 != v0 {
                bad("follow(false)-changes-nothing→changed", format!("{:?}", f0));
            }
            // "exactly once" also for a copy of an entry that is already following (entries are Clone and are
            // handed around by value)
            let followed = e.clone().follow(true);
            let copy = followed.clone();
            if entry_view(&copy) != f1 {
                bad("clone-of-a-followed-entry-is-the-same-entry→differs", format!("{:?} vs {:?}", entry_view(&copy), f1));
            }
            let c2 = entry_view(&copy.clone().follow(true));
            let c3 = entry_view(&copy.upcast().follow(true));
            if c2 != f1 || c3 != f1 {
                bad("follow-swaps-exactly-once→swapped-again(after clone)", format!("{:?} / {:?}", c2, c3));
            }
        },
        Err(e) => bad("entry(link)→Err", e.to_string()),
    }
    // a second symlink() for the same location, under any spelling of the link path: either it is refused and the link
    // is what it was, or it reports success and then the law holds for the NEW target
    {
        let (ldir, base) = (rl(&ld), base_of(l).to_string());
        let mut spellings = vec![("canonical", rl(l)), ("dot", format!("{}/./{}", ldir, base)), ("dotdot", format!("{}/zz/../{}", ldir, base)), ("dblsep", format!("{}//{}", ldir, base))];
        if v.set_cwd(&ldir).is_ok() {
            spellings.push(("cwd-relative", base.clone()));
            spellings.push(("cwd-relative-dotdot", format!("zz/../{}", base)));
        }
        for (sname, sp) in spellings {
            let was = (v.readlink_abs(rl(l)).map(|p| ps(&p)).ok(), v.readlink(rl(l)).map(|p| ps(&p)).ok());
            let r = v.symlink(&sp, &other);
            let now = (v.readlink_abs(rl(l)).map(|p| ps(&p)).ok(), v.readlink(rl(l)).map(|p| ps(&p)).ok());
            match r {
                Ok(_) => {
                    if now.0.as_deref() != Some(other.as_str()) {
                        bad(&format!("second-symlink({})-Ok-means-new-target→still-the-old-target", sname), format!("symlink({}, {}) = Ok, readlink_abs = {:?}", sp, other, now.0));
                    }
                    let _ = v.set_cwd(rl("/"));
                    return; // the link now is a different one: the remaining steps speak about the first target
                },
                Err(_) => {
                    if now != was {
                        bad(&format!("second-symlink({})-refused-means-unchanged→changed", sname), format!("{:?} -> {:?}", was, now));
                    }
                },
            }
        }
        let _ = v.set_cwd(rl("/"));
    }
    // non-links
    for (p, what) in [(rl("/zfile"), "file"), (rl(&ld), "dir"), (rl("/nope"), "absent")] {
        if v.readlink(&p).is_ok() || v.readlink_abs(&p).is_ok() {
            bad(&format!("readlink/readlink_abs({})-fails→Ok", what), p.clone());
        }
    }
    // chmod / chown / remove act on the link itself
    if tkind == "file" || tkind == "dir" {
        let s0 = snapshot();
        let tgt0 = s0.nodes.get(&tabs).cloned();
        let lk = rl(l);
        let sub0: Vec<(String, NNode)> = s0.subtree(&tabs).into_iter().filter(|k| *k != lk).map(|k| (k.clone(), s0.nodes[&k].clone())).collect();
        let _ = v.chmod(rl(l), 0o600);
        let s1 = snapshot();
        if s1.nodes.get(&tabs) != tgt0.as_ref() {
            bad("chmod(link)-leaves-target→target-changed", format!("{:?} vs {:?}", tgt0, s1.nodes.get(&tabs)));
        }
        if s1.nodes.get(&rl(l)).map(|n| n.mode & 0o7777) != s0.nodes.get(&rl(l)).map(|n| n.mode & 0o7777) {
            bad("chmod-never-alters-the-link-itself→altered", format!("{:?}", s1.nodes.get(&rl(l))));
        }
        let r = v.chown(rl(l), 7, 8);
        let s2 = snapshot();
        if r.is_ok() {
            if s2.nodes.get(&tabs).map(|n| (n.uid, n.gid)) != tgt0.as_ref().map(|n| (n.uid, n.gid)) {
                bad("chown(link)-leaves-target→target-owner-changed", format!("{:?}", s2.nodes.get(&tabs).map(|n| (n.uid, n.gid))));
            }
            if s2.nodes.get(&rl(l)).map(|n| (n.uid, n.gid)) != Some((7, 8)) {
                bad("chown(link)-acts-on-link→link-owner-unchanged", format!("{:?}", s2.nodes.get(&rl(l)).map(|n| (n.uid, n.gid))));
            }
        }
        // the same through the builders with every recursion setting (a "single path" shortcut must not follow either)
        for (bi, recurse) in [None, Some(false), Some(true)].iter().enumerate() {
            let (u, g) = (20 + bi as u32, 30 + bi as u32);
            let sb0 = snapshot();
            let r = match v.chown_b(rl(l)) {
                Ok(mut c) => {
                    c = c.owner(u, g);
                    if let Some(x) = recurse {
                        c = c.recurse(*x);
                    }
                    c.exec().map_err(|e| e.to_string())
                },
                Err(e) => Err(e.to_string()),
            };
            let sb1 = snapshot();
            if r.is_ok() {
                if sb1.nodes.get(&tabs).map(|n| (n.uid, n.gid)) != sb0.nodes.get(&tabs).map(|n| (n.uid, n.gid)) {
                    bad(&format!("chown_b(link,recurse={:?})-leaves-target→target-owner-changed", recurse), format!("{:?}", sb1.nodes.get(&tabs).map(|n| (n.uid, n.gid))));
                }
                if sb1.nodes.get(&rl(l)).map(|n| (n.uid, n.gid)) != Some((u, g)) {
                    bad(&format!("chown_b(link,recurse={:?})-acts-on-link→link-owner-unchanged", recurse), format!("{:?}", sb1.nodes.get(&rl(l)).map(|n| (n.uid, n.gid))));
                }
            }
            let r = match v.chmod_b(rl(l)) {
                Ok(mut c) => {
                    c = c.all(0o640);
                    c = match recurse {
                        Some(false) => c.no_recurse(),
                        Some(true) => c.recurse(),
                        None => c,
                    };
                    c.exec().map_err(|e| e.to_string())
                },
                Err(e) => Err(e.to_string()),
            };
            let sb2 = snapshot();
            if r.is_ok() && sb2.nodes.get(&tabs).map(|n| n.mode) != sb1.nodes.get(&tabs).map(|n| n.mode) {
                bad(&format!("chmod_b(link,recurse={:?})-leaves-target→target-changed", recurse), format!("{:?}", sb2.nodes.get(&tabs).map(|n| n.mode)));
            }
        }
        // a link is not a directory (link exclusion) - also not for the purpose of holding children: on the in-memory
        // backend, which resolves no links inside a path, nothing can be created beneath the link's own path, whatever
        // kind was recorded for it (the real backend's kernel would create inside the target instead)
        if !backend.contains("stdfs") {
            let sx0 = snapshot();
            let below = [format!("{}/x", rl(l)), format!("{}/y", rl(l)), format!("{}/z", rl(l))];
            let r1 = v.mkfile(&below[0]).is_ok();
            let r2 = v.write_all(&below[1], b"w").is_ok();
            let r3 = v.symlink(&below[2], rl(t)).is_ok();
            let sx1 = snapshot();
            if let Some(k) = sx1.nodes.keys().find(|k| is_under(k, &rl(l))) {
                bad("nothing-exists-beneath-a-link's-own-path→created", format!("{} (mkfile ok={}, write_all ok={}, symlink ok={})", k, r1, r2, r3));
            } else if sx1 != sx0 {
                bad("creating-beneath-a-link-changes-nothing→changed", format!("mkfile ok={}, write_all ok={}, symlink ok={}", r1, r2, r3));
            }
        }
        // ... and back to exactly the owner the TARGET has: the link's own owner differs from it by now, so there is
        // something to do, and it is done to the link (looking at the owner through the link would say "nothing to do")
        let sc0 = snapshot();
        if let Some((tu, tg)) = sc0.nodes.get(&tabs).map(|n| (n.uid, n.gid)) {
            if sc0.nodes.get(&rl(l)).map(|n| (n.uid, n.gid)) != Some((tu, tg)) {
                for via_builder in [false, true] {
                    if via_builder {
                        let _ = v.chown(rl(l), 41, 42);
                    }
                    let r = if via_builder {
                        v.chown_b(rl(l)).and_then(|c| c.owner(tu, tg).exec())
                    } else {
                        v.chown(rl(l), tu, tg)
                    };
                    let sc1 = snapshot();
                    if r.is_ok() {
                        if sc1.nodes.get(&rl(l)).map(|n| (n.uid, n.gid)) != Some((tu, tg)) {
                            bad(
                                &format!("{}(link,to-the-target's-owner)-acts-on-link→link-owner-unchanged", if via_builder { "chown_b" } else { "chown" }),
                                format!("{:?}", sc1.nodes.get(&rl(l)).map(|n| (n.uid, n.gid))),
                            );
                        }
                        if sc1.nodes.get(&tabs).map(|n| (n.uid, n.gid)) != Some((tu, tg)) {
                            bad("chown(link,to-the-target's-owner)-leaves-target→target-owner-changed", format!("{:?}", sc1.nodes.get(&tabs).map(|n| (n.uid, n.gid))));
                        }
                    }
                }
            }
        }
        let r = v.remove(rl(l));
        let s3 = snapshot();
        if r.is_err() || s3.nodes.contains_key(&rl(l)) {
            bad("remove(link)-removes-the-link→still-there", format!("{:?}", r.map_err(|e| e.to_string())));
        }
        for (k, n) in &sub0 {
            let now = s3.nodes.get(k);
            let same = now.map(|m| m.kind == n.kind && m.mode == n.mode).unwrap_or(false);
            if !same {
                bad("remove(link)-leaves-target→target-changed", format!("{}: {:?} vs {:?}", k, n, now));
                break;
            }
        }
        let _ = before;
    }
}

fn c10(ctx: &Ctx, rep: &mut Report) {
    let depth = if ctx.thorough { 6 } else { 4 };
    let pos = positions(depth);
    let (sb, root) = Sandbox::nested("c10");
    let mut idx = 0u64;
    let mut sampled = 0;
    for l in &pos {
        for t in pos.iter().chain(["/".to_string()].iter()) {
            for tkind in ["file", "dir", "absent", "link", "linkdir"] {
                for spelling in ["absolute", "relative"] {
                    idx += 1;
                    if !ctx.mine(idx) {
                        continue;
                    }
                    if l == t || is_under(t, l) || (is_under(l, t) && tkind != "dir") || (t == "/" && tkind != "dir") {
                        continue;
                    }
                    // Memfs
                    let m = Memfs::new();
                    let mref = &m;
                    c10_scenario(&m, "memfs", "", l, t, tkind, spelling, rep, &|| memfs_ntree(&mref.verif_snapshot()), true);
                    // Vfs::Memfs on a sample
                    if idx % 5 == 0 {
                        let vm = Vfs::memfs();
                        let vref = &vm;
                        c10_scenario(&vm, "vfs-memfs", "", l, t, tkind, spelling, rep, &|| match vref {
                            Vfs::Memfs(x) => memfs_ntree(&x.verif_snapshot()),
                            _ => NTree::fresh(),
                        }, true);
                    }
                    // Stdfs (1/3 of the scenarios; full laws only inside C02's domain)
                    if idx % 3 == 0 {
                        wipe(&root);
                        let _ = std::env::set_current_dir(&root);
                        let full = tkind == "file" || tkind == "dir";
                        let r2 = root.clone();
                        c10_scenario(&Stdfs::new(), "stdfs", &root, l, t, tkind, spelling, rep, &|| disk_ntree(&r2), full);
                    }
                    if sampled < 2 && rep.want_sample() && tkind == "dir" && spelling == "relative" && l.matches('/').count() == 3 {
                        sampled += 1;
                        rep.sample(J::obj(vec![("link", J::s(l)), ("target", J::s(t)), ("target_kind", J::s(tkind)), ("spelling", J::s(spelling)), ("readlink", J::s(ref_relative(t, &parent_of(l).unwrap())))]));
                    }
                }
            }
        }
    }
    // real backend only: targets OUTSIDE the sandbox, in other top-level trees and the root itself (existing or not).
    // Link and target then share nothing but "/" - the relative text is a run of ".." all the way up - and the same
    // laws hold: readlink_abs is the target, readlink is relative and navigates to it from the link's directory, the
    // text on disk is what readlink returns. Nothing outside the sandbox is written.
    if ctx.shard == 0 {
        wipe(&root);
        let v = Stdfs::new();
        for (di, ldir) in ["", "/o1", "/o1/o2/o3"].iter().enumerate() {
            let dir = format!("{}{}", root, ldir);
            let _ = v.mkdir_p(&dir);
            for (ti, target) in ["/", "/etc", "/usr/bin/env", "/etc/hostname", "/nonexistent-top/x", "/proc/self"].iter().enumerate() {
                rep.eval();
                let link = format!("{}/out{}_{}", dir, di, ti);
                rep.key_str(&format!("stdfs|outside-target|dl{}|{}", di, target));
                set_case("symlaw:stdfs:returns→stalls", &format!("link={} target={}", link, target));
                let mut bad = |what: &str, detail: String| {
                    rep.violation(&format!("symlaw:stdfs(outside-the-sandbox,absolute):{}", what), J::obj(vec![("link", J::s(link.replace(&root, "<R>"))), ("target", J::s(*target)), ("detail", J::s(detail))]));
                };
                if let Err(e) = v.symlink(&link, target) {
                    bad("symlink→Err", e.to_string());
                    continue;
                }
                match v.readlink_abs(&link) {
                    Ok(a) if a == Path::new(target) => {},
                    other => bad("readlink_abs==abs(target)→differs", format!("{:?}", other.map_err(|e| e.to_string()))),
                }
                match v.readlink(&link) {
                    Ok(r) => {
                        let rs = r.to_string_lossy().to_string();
                        if rs.starts_with('/') {
                            bad("readlink-is-relative→absolute", rs.clone());
                        }
                        if crate::refs::go_clean(&format!("{}/{}", dir, rs)) != *target {
                            bad("clean(dir(link)/readlink)==readlink_abs→differs", rs.clone());
                        }
                        match std::fs::read_link(&link) {
                            Ok(t) if t == r => {},
                            other => bad("text-on-disk==readlink→differs", format!("{:?} vs {:?}", other, r)),
                        }
                    },
                    Err(e) => bad("readlink→Err", e.to_string()),
                }
                if !v.is_symlink(&link) || v.is_file(&link) || v.is_dir(&link) {
                    bad("link-exclusion→violated", String::new());
                }
                if v.remove(&link).is_err() || std::fs::symlink_metadata(&link).is_ok() {
                    bad("remove(link)-removes-the-link→still-there", String::new());
                }
            }
        }
    }
    drop(sb);
}

// =============================================================================================
// C11
// =============================================================================================
fn clauses() -> Vec<String> {
    let groups = ["u", "g", "o", "a", "ug", "uo", "go", "ugo", "ua", "ga", "oa", "gu", "og", "ugoa", "ou"];
    let perms = ["r", "w", "x", "rw", "rx", "wx", "rwx"];
    let mut v = vec![];
    for t in ["d", "f", "a"] {
        for g in groups {
            for o in ["-", "+", "="] {
                for p in perms {
                    v.push(format!("{}:{}{}{}", t, g, o, p));
                }
            }
        }
    }
    v
}
fn malformed() -> Vec<&'static str> {
    vec!["", "x:u+r", "du+r", "d:+r", "d:u+", "d:ur", "d:u+q", "d:z+r", "u+r", "d:u", ":", "d:", "7:u+r", "d:u*r", "d;u+r", "+r", "rwx", "d:u+r+"]
}

fn set_start<V: VirtualFileSystem>(v: &V, p: &str, m: u32) -> bool {
    if m == 0 {
        v.chmod_b(p).and_then(|c| c.sym("a:a-rwx").no_recurse().exec()).is_ok()
    } else {
        v.chmod_b(p).and_then(|c| c.all(m).no_recurse().exec()).is_ok()
    }
}

fn c11_grammar<V: VirtualFileSystem>(v: &V, backend: &str, root: &str, ctx: &Ctx, rep: &mut Report, mode_stride: usize, clause_stride: usize) {
    let f = format!("{}/f", root);
    let d = format!("{}/d", root);
    let l = format!("{}/l", root);
    let _ = v.mkdir_p(root);
    let _ = v.mkdir_p(&d);
    let _ = v.write_all(&f, b"x");
    let _ = v.symlink(&l, &f);
    let cl = clauses();
    let mut idx = 0u64;
    let kinds: [(&str, &str, bool, bool); 3] = [("file", &f, false, true), ("dir", &d, true, false), ("link", &l, false, false)];
    let mut check = |expr: &str, start: u32, kind: &str, path: &str, is_dir: bool, is_file: bool, rep: &mut Report, shape: &str| {
        rep.eval();
        let target = if kind == "link" { &f } else { path };
        if !set_start(v, target, start) {
            rep.inconclusive("could not set a start mode");
            return;
        }
        let m0 = v.mode(path).unwrap_or(0);
        let t0 = v.mode(target).unwrap_or(0);
        let r = v.chmod_b(path).and_then(|c| c.sym(expr).no_recurse().exec());
        let m1 = v.mode(path).unwrap_or(0);
        let t1 = v.mode(target).unwrap_or(0);
        let expect = if kind == "link" { Ok(m0) } else { ref_chmod_sym(m0, is_dir, is_file, expr) };
        rep.key_str(&format!("{}|{}|{}|{}", backend, shape, kind, expect.is_ok()));
        let wit = |exp: String| {
            J::obj(vec![
                ("backend", J::s(backend)),
                ("entry", J::s(kind)),
                ("expression", J::s(expr)),
                ("start_mode", J::s(format!("{:o}", m0))),
                ("expected", J::s(exp)),
                ("got", J::s(format!("{} mode {:o}", if r.is_ok() { "Ok" } else { "Err" }, m1))),
            ])
        };
        if rep.want_sample() && shape.starts_with("double") && kind != "link" {
            rep.sample(J::obj(vec![
                ("backend", J::s(backend)),
                ("entry", J::s(kind)),
                ("expression", J::s(expr)),
                ("start_mode", J::s(format!("{:o}", m0))),
                ("mode_after", J::s(format!("{:o}", m1))),
                ("reference", J::s(format!("{:?}", expect.as_ref().map(|m| format!("{:o}", m))))),
            ]));
        }
        match expect {
            Ok(e) => {
                if r.is_err() {
                    rep.violation(&format!("chmodsym:{}({},{}):Ok→Err", backend, kind, shape), wit(format!("Ok mode {:o}", e)));
                } else if m1 != e {
                    rep.violation(&format!("chmodsym:{}({},{}):grammar-value→differs", backend, kind, shape), wit(format!("Ok mode {:o}", e)));
                }
                if kind == "link" && t1 != t0 {
                    rep.violation(&format!("chmodsym:{}(link,{}):target-untouched→changed", backend, shape), wit(format!("target mode {:o}", t0)));
                }
            },
            Err(SymErr::First) => {
                if r.is_ok() {
                    rep.violation(&format!("chmodsym:{}({},{}):Err→Ok", backend, kind, shape), wit("Err and mode unchanged".into()));
                } else if m1 != m0 {
                    rep.violation(&format!("chmodsym:{}({},{}):Err+unchanged→changed", backend, kind, shape), wit("Err and mode unchanged".into()));
                }
            },
            Err(SymErr::Later) => {},
        }
        if (m1 & !0o7777) != (m0 & !0o7777) {
            rep.violation(&format!("chmodsym:{}({}):type-bits-kept→changed", backend, kind), wit(format!("type bits {:o}", m0 & !0o7777)));
        }
        if kind != "link" {
            let (ex, ro) = (v.is_exec(path), v.is_readonly(path));
            if ex != (m1 & 0o111 != 0) || ro != (m1 & 0o222 == 0) {
                rep.violation(&format!("chmodsym:{}({}):is_exec/is_readonly-agree-with-mode→differs", backend, kind), wit(format!("is_exec={} is_readonly={}", ex, ro)));
            }
        }
    };
    // single clauses x start modes x kinds
    for (ci, c) in cl.iter().enumerate() {
        if ci % clause_stride != 0 {
            continue;
        }
        for start in (0..512u32).step_by(mode_stride) {
            idx += 1;
            if !ctx.mine(idx) {
                continue;
            }
            // spread the start modes that a stride would always skip
            let start = (start + (ci as u32 * 7) % mode_stride as u32).min(511);
            // every second start mode also carries setuid / setgid / sticky: a symbolic change leaves them alone
            let start = start | [0u32, 0o1000, 0, 0o4000, 0, 0o2000, 0, 0o7000][(ci * 3 + start as usize / mode_stride.max(1)) % 8];
            if start > 0o777 {
                rep.count("symbolic_chmods_on_start_modes_with_special_bits", 1);
            }
            for (kind, path, is_dir, is_file) in kinds.iter() {
                let shape = format!("single:{}{}", &c[..1], c.chars().find(|x| "-+=".contains(*x)).unwrap());
                check(c, start, kind, path, *is_dir, *is_file, rep, &shape);
            }
        }
    }
    // double clauses
    let seconds: Vec<&String> = cl.iter().step_by(cl.len() / 64).collect();
    let mut rng = ctx.rng(&format!("c11-double-{}", backend));
    let n_double = if ctx.thorough { cl.len() * seconds.len() } else { cl.len() * seconds.len() / 50 } / clause_stride;
    for k in 0..n_double {
        let (a, b) = if ctx.thorough { (&cl[k / seconds.len() % cl.len()], seconds[k % seconds.len()]) } else { (rng.pick(&cl), *rng.pick(&seconds)) };
        idx += 1;
        if !ctx.mine(idx) {
            continue;
        }
        let expr = format!("{},{}", a, b);
        let start = rng.below(512) as u32 | *rng.pick(&[0u32, 0, 0, 0o1000, 0o2000, 0o4000]);
        for (kind, path, is_dir, is_file) in kinds.iter() {
            let shape = format!("double:{}{},{}{}", &a[..1], a.chars().find(|x| "-+=".contains(*x)).unwrap(), &b[..1], b.chars().find(|x| "-+=".contains(*x)).unwrap());
            check(&expr, start, kind, path, *is_dir, *is_file, rep, &shape);
        }
    }
    // malformed
    if ctx.shard == 0 {
        for mexpr in malformed() {
            if mexpr.is_empty() {
                continue; // an empty expression means "no symbolic mode"
            }
            for start in [0o644u32, 0o755, 0o000, 0o777] {
                for (kind, path, is_dir, is_file) in kinds.iter().take(2) {
                    check(mexpr, start, kind, path, *is_dir, *is_file, rep, "malformed-first");
                }
                for (kind, path, is_dir, is_file) in kinds.iter().take(2) {
                    let e2 = format!("a:u+r,{}", mexpr);
                    check(&e2, start, kind, path, *is_dir, *is_file, rep, "malformed-later");
                }
            }
        }
        // octal selectors on single entries
        for m in [0o1u32, 0o7, 0o70, 0o700, 0o644, 0o755, 0o777, 0o400, 0o222, 0o111, 0o511] {
            for (kind, path, _, _) in kinds.iter().take(2) {
                for sel in ["all", "dirs", "files"] {
                  // (start modes without any read / execute bit included: the pre-traversal step that grants
                  // permissions early must leave an entry alone that the selector does not name)
                  for start in [0o640u32, 0o200, 0o222, 0o020, 0o100, 0o777] {
                    rep.eval();
                    set_start(v, path, start);
                    let m0 = v.mode(path).unwrap_or(0);
                    let r = v.chmod_b(path).and_then(|c| {
                        match sel {
                            "all" => c.all(m),
                            "dirs" => c.dirs(m),
                            _ => c.files(m),
                        }
                        .exec()
                    });
                    let m1 = v.mode(path).unwrap_or(0);
                    let selected = sel == "all" || (sel == "dirs" && *kind == "dir") || (sel == "files" && *kind == "file");
                    let expect = if selected { (m0 & !0o7777) | m } else { m0 };
                    rep.key_str(&format!("{}|octal|{}|{}", backend, sel, kind));
                    if r.is_err() || m1 != expect {
                        rep.violation(
                            &format!("chmodoctal:{}({},{}):{}→differs", backend, kind, sel, if selected { "set-to-value" } else { "untargeted-unchanged" }),
                            J::obj(vec![("mode", J::s(format!("{:o}", m))), ("start", J::s(format!("{:o}", m0))), ("got", J::s(format!("{:o}", m1)))]),
                        );
                    }
                  }
                }
            }
        }
        // octal 0
        for (kind, path, _, _) in kinds.iter().take(2) {
            rep.eval();
            set_start(v, path, 0o644);
            let _ = v.chmod(path, 0);
            let m1 = v.mode(path).unwrap_or(0);
            if m1 & 0o7777 != 0 {
                rep.violation(&format!("chmodoctal:{}({},mode=0):set-to-value→unchanged", backend, kind), J::obj(vec![("call", J::s(format!("chmod({}, 0)", path))), ("mode_after", J::s(format!("{:o}", m1)))]));
            }
        }
    }
}

fn option_records() -> Vec<Op> {
    let mut v = vec![];
    for p in ["/", "/a", "/b", "/a/a", "/a/b", "/zz"] {
        let p = p.to_string();
        for (all, dirs, files) in [(Some(0o700u32), None, None), (None, Some(0o711u32), None), (None, None, Some(0o600u32)), (None, Some(0o750), Some(0o640)), (None, None, None)] {
            for sym in [None, Some("a:go-rwx"), Some("f:a+r,f:a-wx"), Some("d:a+x,f:a-x"), Some("f:u+x")] {
                if all.is_none() && dirs.is_none() && files.is_none() && sym.is_none() {
                    continue;
                }
                for recurse in [None, Some(false)] {
                    for follow in [false, true] {
                        v.push(Op::ChmodB(p.clone(), ChmodO { all, dirs, files, sym: sym.map(|s| s.to_string()), recurse, follow }));
                    }
                }
            }
        }
        // octal values that coincide with the nominal mode of a link (0777) or with the default modes (0755 / 0644):
        // an "already in effect" shortcut compares against the wrong entry exactly there
        for (all, dirs, files) in [(Some(0o777u32), None, None), (Some(0o755), None, None), (Some(0o644), None, None), (None, Some(0o777), Some(0o777))] {
            for recurse in [None, Some(false)] {
                for follow in [false, true] {
                    v.push(Op::ChmodB(p.clone(), ChmodO { all, dirs, files, sym: None, recurse, follow }));
                }
            }
        }
        v.push(Op::Chmod(p.clone(), 0o777));
        for (uid, gid) in [(Some(5u32), Some(6u32)), (Some(5), None), (None, Some(6))] {
            for recurse in [None, Some(false), Some(true)] {
                for follow in [false, true] {
                    v.push(Op::ChownB(p.clone(), ChownO { uid, gid, recurse, follow }));
                }
            }
        }
        v.push(Op::Chmod(p.clone(), 0o751));
        v.push(Op::Chown(p.clone(), 3, 4));
    }
    v
}

fn c11(ctx: &Ctx, rep: &mut Report) {
    std::env::set_var("HOME", HOME);
    let (sb, root) = Sandbox::nested("c11");
    // oracle 1
    let m = Memfs::new();
    let stride = if ctx.thorough { 1 } else { 8 };
    c11_grammar(&m, "memfs", "/g", ctx, rep, stride, 1);
    c11_grammar(&Stdfs::new(), "stdfs", &format!("{}/g", root), ctx, rep, stride * 8, 3);
    // oracle 2
    let paths = namespace(&["a", "b"], 2);
    let (muts, _) = sweep_alphabet(&paths, false);
    let cap = if ctx.thorough { 10_000 } else { 800 };
    let (states, complete) = enumerate_states(&muts, cap);
    if !complete {
        rep.exhaustive = false;
    }
    let recs = option_records();
    let sroot = format!("{}/t", root);
    for (si, (state, hist)) in states.iter().enumerate() {
        if !ctx.mine(si as u64) {
            continue;
        }
        let model = tree_from(state, HOME);
        for op in &recs {
            let mut ls = LockStep::new(Mode::Model);
            let mut scratch = Report::new();
            for h in hist {
                ls.apply(h, &mut scratch);
            }
            if ls.model.t != *state {
                break;
            }
            ls.apply(op, rep);
            // Stdfs as root on the in-domain subset
            // (links to nothing included - only links to links are left to Memfs: the operating system follows chains)
            let no_chains = state.nodes.values().all(|n| match &n.kind {
                NKind::Link { target, .. } => !matches!(state.nodes.get(target), Some(NNode { kind: NKind::Link { .. }, .. })) && !through_link(state, Some(target.as_str())),
                _ => true,
            });
            // (chown through a followed link to nothing is an operating system error on the real backend and a silent
            // no-op on Memfs - not defined by the statement: dangling links are judged for chmod only)
            let domain_ok = in_domain_state(state) || (no_chains && matches!(op, Op::Chmod(..) | Op::ChmodB(..)));
            if si % 5 == 0 && domain_ok && !through_link(state, model.abs(op.paths()[0]).and_then(|x| x.ok()).as_deref()) {
                if let Expect::Outcomes(outs) = model.step(op) {
                    // every second of these states gets mixed owners on disk before a chown (5:0, 0:6, 5:6 by position):
                    // some entries then already have one or both of the requested ids, others neither
                    let mixed = si % 10 == 5 && matches!(op, Op::Chown(..) | Op::ChownB(..));
                    let keys: Vec<String> = state.nodes.keys().filter(|k| *k != "/").cloned().collect();
                    let prep = |r: &str| {
                        for (i, k) in keys.iter().enumerate() {
                            let (u, g) = [(5u32, 0u32), (0, 6), (5, 6), (0, 0)][i % 4];
                            let _ = std::os::unix::fs::lchown(format!("{}{}", r, k), Some(u), Some(g));
                        }
                    };
                    if let Some((r, pre_d, post_d)) = stdfs_step_prep(&sroot, state, op, if mixed { Some(&prep) } else { None }) {
                        rep.eval();
                        let cls = arg_classes(state, &model, op);
                        if mixed {
                            rep.count("real_chowns_on_states_with_mixed_owners", 1);
                        }
                        rep.key_str(&format!("stdfs|{}|{}|{}{}", op.name(), cls, r.class(), if mixed { "|mixed-owners" } else { "" }));
                        // compare the change of permission bits / owners entry by entry with the reference's change
                        let o = &outs[0];
                        let mut diffs = vec![];
                        for (k, n) in &post_d.nodes {
                            let (p0, r0, r1) = (pre_d.nodes.get(k), state.nodes.get(k), o.post.nodes.get(k));
                            if let (Some(p0), Some(r0), Some(r1)) = (p0, r0, r1) {
                                // (a link has no permission bits of its own on Linux - but it has an owner)
                                let is_link = matches!(n.kind, NKind::Link { .. });
                                let want_mode = if r1.mode != r0.mode { r1.mode & 0o7777 } else { p0.mode & 0o7777 };
                                if !is_link && n.mode & 0o7777 != want_mode {
                                    diffs.push(format!("{} mode {:o} expected {:o}", k, n.mode & 0o7777, want_mode));
                                }
                                if matches!(op, Op::Chown(..) | Op::ChownB(..)) {
                                    let want_uid = if r1.uid != r0.uid { r1.uid } else { p0.uid };
                                    let want_gid = if r1.gid != r0.gid { r1.gid } else { p0.gid };
                                    if (n.uid, n.gid) != (want_uid, want_gid) {
                                        diffs.push(format!("{} owner {}:{} expected {}:{}", k, n.uid, n.gid, want_uid, want_gid));
                                    }
                                }
                            }
                        }
                        let res_ok = o.res.matches(&r) || (r.is_err() && matches!(o.res, Pat::ErrKind(_)));
                        if !diffs.is_empty() || !res_ok {
                            // same categories as the Memfs lock-step: what the reference wanted vs what the disk shows
                            let mut want = pre_d.clone();
                            for (k, n) in want.nodes.iter_mut() {
                                if let (Some(r0), Some(r1)) = (state.nodes.get(k), o.post.nodes.get(k)) {
                                    if r1.mode != r0.mode {
                                        n.mode = (n.mode & !0o7777) | (r1.mode & 0o7777);
                                    }
                                    if r1.uid != r0.uid {
                                        n.uid = r1.uid;
                                    }
                                    if r1.gid != r0.gid {
                                        n.gid = r1.gid;
                                    }
                                }
                            }
                            let cats = change_categories(&pre_d, &want, &post_d);
                            rep.violation(
                                &format!("changedset:{}(stdfs,{}):{}→{}", op.name(), cls, o.res.class(), if !res_ok { r.class() } else { format!("Ok+{}", cats) }),
                                J::obj(vec![("call", J::s(op.describe())), ("pre_state", state.to_json()), ("result", J::s(r.short())), ("differences", J::strs(&diffs))]),
                            );
                        }
                    }
                }
            }
        }
    }
    // Last, and only in one worker: the same calls WITHOUT root's pass through every permission. The worker gives up
    // its privileges for good (uid 1000 owns the sandbox) and chmods trees whose directories it owns but cannot list
    // (0300, 0000): the documented grant-on-the-way-in is what lets a recursive chmod that adds read permission
    // succeed there - a directory that is opened before it is granted answers EACCES.
    if ctx.shard == 0 {
        wipe(&sroot);
        if drop_privileges(&sb, 1000, 1000) && unsafe { libc::geteuid() } == 1000 {
            use std::os::unix::fs::PermissionsExt;
            let v = Stdfs::new();
            for (ci, (start, call)) in [(0o300u32, "chmod(0755)"), (0o000, "chmod(0755)"), (0o300, "chmod_b.dirs(0750).files(0640)"), (0o000, "chmod_b.sym(d:u+rwx,f:u+rw)"), (0o300, "chmod_b.all(0700).follow()")].iter().enumerate() {
                rep.eval();
                let top = format!("{}/np{}", sroot, ci);
                let sub = format!("{}/sub", top);
                let (f1, f2) = (format!("{}/f", top), format!("{}/g", sub));
                let _ = std::fs::create_dir_all(&sub);
                let _ = std::fs::write(&f1, b"x");
                let _ = std::fs::write(&f2, b"y");
                let _ = std::fs::set_permissions(&f1, std::fs::Permissions::from_mode(0o600));
                let _ = std::fs::set_permissions(&f2, std::fs::Permissions::from_mode(0o600));
                let _ = std::fs::set_permissions(&sub, std::fs::Permissions::from_mode(*start));
                let _ = std::fs::set_permissions(&top, std::fs::Permissions::from_mode(*start));
                set_case(&format!("chmodnp:stdfs({}):returns→stalls", call), &top);
                let r = catch(|| match *call {
                    "chmod(0755)" => v.chmod(&top, 0o755),
                    "chmod_b.dirs(0750).files(0640)" => v.chmod_b(&top).and_then(|c| c.dirs(0o750).files(0o640).exec()),
                    "chmod_b.sym(d:u+rwx,f:u+rw)" => v.chmod_b(&top).and_then(|c| c.sym("d:u+rwx,f:u+rw").exec()),
                    _ => v.chmod_b(&top).and_then(|c| c.all(0o700).follow().exec()),
                });
                rep.key_str(&format!("stdfs-unprivileged|{}|start={:o}", call, start));
                rep.count("unprivileged_chmods_of_unlistable_trees", 1);
                let mode = |p: &str| std::fs::symlink_metadata(p).map(|m| m.permissions().mode() & 0o7777).unwrap_or(0o7777);
                let (want_d, want_f) = match *call {
                    "chmod(0755)" => (0o755, 0o755),
                    "chmod_b.dirs(0750).files(0640)" => (0o750, 0o640),
                    "chmod_b.sym(d:u+rwx,f:u+rw)" => (*start | 0o700, 0o600),
                    _ => (0o700, 0o700),
                };
                let got = (mode(&top), mode(&sub), mode(&f1), mode(&f2));
                let ok = matches!(r, Ok(Ok(()))) && got == (want_d, want_d, want_f, want_f);
                if !ok {
                    rep.violation(
                        &format!("chmodnp:stdfs(unprivileged,dirs-start-at-{:o},{}):granted-on-the-way-in→{}", start, call, if matches!(r, Ok(Ok(()))) { "wrong-modes" } else { "Err" }),
                        J::obj(vec![("call", J::s(*call)), ("result", J::s(format!("{:?}", r.map(|x| x.map_err(|e| e.to_string()))))), ("modes(top,sub,file,file)", J::s(format!("{:o} {:o} {:o} {:o}", got.0, got.1, got.2, got.3))), ("expected", J::s(format!("{:o} {:o} {:o} {:o}", want_d, want_d, want_f, want_f)))]),
                    );
                }
                let _ = std::process::Command::new("chmod").args(["-R", "u+rwx", &top]).output();
            }
        } else {
            rep.inconclusive("could not switch to uid 1000 for the unprivileged chmod cases");
        }
    }
    drop(sb);
}
