// C08: traversal yields exactly the selected entries, once, in order, and terminates
use std::collections::BTreeMap;

use rivia::prelude::*;

use super::{macros::in_domain_state, Prop};
use crate::{fsops::*, infra::*, stdside::*};

pub fn props() -> Vec<Prop> {
    vec![Prop {
        id: "C08",
        run: c08,
        tools: None,
        rule: "seeded random trees (<= 12 nodes quick, <= 25 thorough; files, directories, links to files / directories / ancestors / absent paths, link cycles) x the full cross-product of entries() options (min_depth 0-3, max_depth 0-3/unbounded, none/dirs/files filter or one of 2 custom predicates, follow, sort_by_name, dirs_first, files_first, contents_first; ~3 k option records per tree, thinned by a seeded stride in quick) x descriptor caps {0,1,2,50} (hook) and a 60-deep chain without the hook. A reference walker computes from the reference tree what the options denote; checked on the produced sequence: termination within 2*|expected|+8 items, multiset equality (path, alt, kind flags, following), no item a filter rejects, parent before contents (after with contents_first), exact sequence equality whenever an order is requested (sort_by_name / dirs_first / files_first), LinkLooping instead of endless descent, equality across descriptor caps. paths/dirs/files/all_* are checked for absolute, distinct, name-sorted, argument-free results that agree with exists/is_dir/is_file in both directions. Memfs for all, Stdfs (materialised with std::fs) for a sample of in-domain trees. distinct_nontrivial = distinct (backend, option record class, tree shape class, outcome class) tuples. Later additions: a third of the trees use sibling names that are string prefixes of each other; a directed family on the real backend of link cycles whose target path runs through another link, judged on termination while polling past errors (the defect this showed - loop detection on path text - is fixed in /repo); a panicking traversal is a violation; one traversal over 66 000 sibling directories (more than a 16-bit counter holds), sorted and unsorted.",
        assumptions: &[
            "link-to-link chains are generated only with follow == false (the statement does not define them under follow)",
            "sibling order is only judged when an order is requested; ties in file name between a followed link and a sibling fall back to multiset comparison",
        ],
        shards_quick: 8,
        shards_thorough: 16,
        budget_quick_s: 240,
        budget_thorough_s: 1500,
        min_evals: 20_000,
        exhaustive_capable: false,
    }]
}

#[derive(Clone, Debug, PartialEq)]
pub struct WOpts {
    pub min: usize,
    pub max: usize, // usize::MAX = unbounded
    pub filter: u8, // 0 none, 1 dirs, 2 files, 3 custom: name starts with 'a', 4 custom: not a symlink
    pub follow: bool,
    pub sort: bool,
    pub dirs_first: bool,
    pub files_first: bool,
    pub contents_first: bool,
}
impl WOpts {
    fn ordered(&self) -> bool {
        self.sort || self.dirs_first || self.files_first
    }
    fn class(&self) -> String {
        format!(
            "min{}|max{}|{}|{}{}{}{}{}",
            self.min,
            if self.max == usize::MAX { "inf".to_string() } else { self.max.to_string() },
            ["all", "dirs", "files", "pred-name", "pred-nolink"][self.filter as usize],
            if self.follow { "follow," } else { "" },
            if self.sort { "sort," } else { "" },
            if self.dirs_first { "dirs_first," } else { "" },
            if self.files_first { "files_first," } else { "" },
            if self.contents_first { "contents_first" } else { "" }
        )
    }
}

#[derive(Clone, Debug, PartialEq, Eq, PartialOrd, Ord)]
pub enum WItem {
    Entry { path: String, alt: String, is_dir: bool, is_file: bool, is_link: bool, following: bool },
    Err(String),
}
fn item_name(i: &WItem) -> String {
    match i {
        WItem::Entry { path, .. } => base_of(path).to_string(),
        WItem::Err(_) => String::new(),
    }
}

struct Seen {
    path: String,
    alt: String,
    is_dir: bool,
    is_file: bool,
    is_link: bool,
    following: bool,
}
thread_local! {
    /// the real backend reports a link to nothing as neither a directory nor a file (the in-memory one as a file link)
    static REAL_DANGLING: std::cell::Cell<bool> = std::cell::Cell::new(false);
}
fn seen(t: &NTree, k: &str, follow: bool) -> Option<Seen> {
    let n = t.nodes.get(k)?;
    Some(match &n.kind {
        NKind::Link { target, .. } if REAL_DANGLING.with(|c| c.get()) && !follow && !t.nodes.contains_key(target) => {
            Seen { path: k.to_string(), alt: target.clone(), is_dir: false, is_file: false, is_link: true, following: false }
        },
        NKind::Dir => Seen { path: k.to_string(), alt: String::new(), is_dir: true, is_file: false, is_link: false, following: false },
        NKind::File(_) => Seen { path: k.to_string(), alt: String::new(), is_dir: false, is_file: true, is_link: false, following: false },
        NKind::Link { target, dir } => {
            if follow {
                Seen { path: target.clone(), alt: k.to_string(), is_dir: *dir, is_file: !*dir, is_link: true, following: true }
            } else {
                Seen { path: k.to_string(), alt: target.clone(), is_dir: *dir, is_file: !*dir, is_link: true, following: false }
            }
        },
    })
}
fn passes(o: &WOpts, s: &Seen) -> bool {
    match o.filter {
        0 => true,
        1 => s.is_dir,
        2 => s.is_file,
        3 => base_of(&s.path).starts_with('a'),
        _ => !s.is_link,
    }
}

/// Expected sequence with siblings in name order (the canonical order); `ties` is set when two siblings share a name
fn ref_walk(t: &NTree, k: &str, depth: usize, o: &WOpts, stack: &mut Vec<String>, out: &mut Vec<WItem>, ties: &mut bool, budget: &mut usize) {
    if *budget == 0 {
        return;
    }
    *budget -= 1;
    let s = match seen(t, k, o.follow) {
        Some(s) => s,
        None => return,
    };
    let item = WItem::Entry { path: s.path.clone(), alt: s.alt.clone(), is_dir: s.is_dir, is_file: s.is_file, is_link: s.is_link, following: s.following };
    let descend = s.is_dir && (!s.is_link || o.follow);
    let mut children: Vec<String> = vec![];
    let mut opened = false;
    if descend {
        if s.is_link && stack.iter().any(|p| *p == s.path) {
            out.push(WItem::Err("LinkLooping".into()));
            return;
        }
        if depth < o.max {
            if !t.nodes.contains_key(&s.path) || !t.is_real_dir(&s.path) {
                out.push(WItem::Err("DoesNotExist".into()));
                return;
            }
            children = t.children(&s.path);
            opened = true;
        }
    }
    let yielded = depth >= o.min && passes(o, &s);
    let deferred = s.is_dir && o.contents_first;
    if yielded && !deferred {
        out.push(item.clone());
    }
    if opened {
        // sibling order: by the file name of what is seen (a followed link shows its target's name)
        let mut kids: Vec<(String, bool, String)> = children
            .iter()
            .filter_map(|c| seen(t, c, o.follow).map(|sc| (base_of(&sc.path).to_string(), sc.is_dir, c.clone())))
            .collect();
        kids.sort();
        for w in kids.windows(2) {
            if w[0].0 == w[1].0 {
                *ties = true;
            }
        }
        if o.dirs_first {
            kids.sort_by_key(|x| !x.1);
        } else if o.files_first {
            kids.sort_by_key(|x| x.1);
        }
        stack.push(s.path.clone());
        for (_, _, c) in kids {
            ref_walk(t, &c, depth + 1, o, stack, out, ties, budget);
        }
        stack.pop();
    }
    if yielded && deferred {
        out.push(item);
    }
}

fn to_witem(e: &EntryView) -> WItem {
    WItem::Entry { path: e.path.clone(), alt: e.alt.clone(), is_dir: e.is_dir, is_file: e.is_file, is_link: e.is_symlink, following: e.following }
}

fn run_real<V: VirtualFileSystem>(v: &V, root: &str, o: &WOpts, cap: Option<u16>, limit: usize) -> Result<Vec<WItem>, String> {
    // a panic inside the traversal is a finding about the traversal, not a harness failure
    match catch(|| run_real_inner(v, root, o, cap, limit)) {
        Ok(r) => r,
        Err(msg) => Err(format!("panic: {}", msg)),
    }
}

fn run_real_inner<V: VirtualFileSystem>(v: &V, root: &str, o: &WOpts, cap: Option<u16>, limit: usize) -> Result<Vec<WItem>, String> {
    let mut e = v.entries(root).map_err(|e| err_kind(&e))?;
    e = e.min_depth(o.min);
    if o.max != usize::MAX {
        e = e.max_depth(o.max);
    }
    // (for odd min_depth the other kind filter is asked for first: the later call is the one that counts)
    match (o.filter, o.min % 2 == 1) {
        (1, false) => e = e.dirs(),
        (1, true) => e = e.files().dirs(),
        (2, false) => e = e.files(),
        (2, true) => e = e.dirs().files(),
        _ => {},
    }
    e = e.follow(o.follow);
    if o.sort {
        e = e.sort_by_name();
    }
    if o.dirs_first {
        e = e.dirs_first();
    }
    if o.files_first {
        e = e.files_first();
    }
    if o.contents_first {
        e = e.contents_first();
    }
    if let Some(c) = cap {
        e = e.verif_max_descriptors(c);
    }
    let mut it = e.into_iter();
    match o.filter {
        3 => it = it.filter_p(|x| x.file_name().and_then(|n| n.to_str()).map(|n| n.starts_with('a')).unwrap_or(false)),
        4 => it = it.filter_p(|x| !x.is_symlink()),
        _ => {},
    }
    let mut out = vec![];
    for x in it {
        out.push(match x {
            Ok(e) => to_witem(&entry_view(&e)),
            Err(e) => WItem::Err(err_kind(&e)),
        });
        if out.len() > limit {
            return Err("does-not-terminate".into());
        }
    }
    Ok(out)
}

fn gen_tree(rng: &mut Rng, max_nodes: usize, allow_chain: bool) -> NTree {
    let mut t = NTree::fresh();
    // every third tree uses names that are string prefixes of each other (a path-prefix test done on text instead of
    // components confuses such siblings)
    let names: [&str; 5] = if rng.chance(1, 3) { ["a", "ab", "abc", "a.b", "b"] } else { ["a", "b", "c", "ab", "d"] };
    let n = 2 + rng.below(max_nodes - 1);
    for _ in 0..n {
        let dirs: Vec<String> = t.nodes.iter().filter(|(_, n)| n.kind == NKind::Dir).map(|(k, _)| k.clone()).collect();
        let parent = rng.pick(&dirs).clone();
        let name = *rng.pick(&names);
        let p = join(&parent, name);
        if t.nodes.contains_key(&p) || p.matches('/').count() > 5 {
            continue;
        }
        let kind = match rng.below(10) {
            0..=3 => NKind::Dir,
            4..=6 => NKind::File(vec![b'x']),
            _ => {
                // link: to an existing non-link entry (possibly an ancestor), to an absent path, or (no follow) to a link
                let all: Vec<String> = t.nodes.keys().cloned().collect();
                let target = if rng.chance(1, 6) { format!("{}/missing", parent) } else { rng.pick(&all).clone() };
                match t.nodes.get(&target).map(|n| n.kind.clone()) {
                    Some(NKind::Link { .. }) if !allow_chain => continue,
                    Some(NKind::Dir) => NKind::Link { target, dir: true },
                    Some(NKind::Link { dir, .. }) => NKind::Link { target, dir },
                    _ => NKind::Link { target, dir: false },
                }
            },
        };
        let mode = match kind {
            NKind::Dir => 0o40755,
            NKind::File(_) => 0o100644,
            _ => 0o120777,
        };
        t.nodes.insert(p, NNode { kind, mode, uid: 1000, gid: 1000 });
    }
    t
}

fn shape_class(t: &NTree) -> String {
    let links = t.nodes.values().filter(|n| matches!(n.kind, NKind::Link { .. })).count();
    let cyc = t.nodes.iter().any(|(k, n)| matches!(&n.kind, NKind::Link { target, .. } if k == target || is_under(k, target)));
    let depth = t.nodes.keys().map(|k| k.matches('/').count()).max().unwrap_or(0);
    format!("n{}|links{}|{}|d{}", t.nodes.len().min(12) / 3, links.min(3), if cyc { "ancestor-link" } else { "no-ancestor-link" }, depth.min(5))
}

fn multiset(v: &[WItem]) -> Vec<WItem> {
    let mut m = v.to_vec();
    m.sort();
    m
}

fn check_case(backend: &str, t: &NTree, root: &str, o: &WOpts, got: &Result<Vec<WItem>, String>, exp: &[WItem], ties: bool, cap: Option<u16>, rep: &mut Report) {
    let ocls = o.class();
    let wit = |detail: String| {
        J::obj(vec![
            ("backend", J::s(backend)),
            ("tree", t.to_json()),
            ("root", J::s(root)),
            ("options", J::s(format!("{:?}", o))),
            ("descriptor_cap", J::s(format!("{:?}", cap))),
            ("expected_in_name_order", J::Arr(exp.iter().map(|x| J::s(format!("{:?}", x))).collect())),
            ("got", J::s(format!("{:?}", got).chars().take(1500).collect::<String>())),
            ("detail", J::s(detail)),
        ])
    };
    let sig_opts = format!(
        "{}{}{}{}{}",
        ["all", "dirs", "files", "pred", "pred"][o.filter as usize],
        if o.follow { "+follow" } else { "" },
        if o.ordered() { "+ordered" } else { "" },
        if o.contents_first { "+contents_first" } else { "" },
        if o.min > 0 { "+min_depth" } else { "" }
    );
    let got = match got {
        Err(e) => {
            if e == "does-not-terminate" {
                rep.violation(&format!("walk:{}({}):terminates→more-than-2n+8-items", backend, sig_opts), wit("iteration did not stop".into()));
            } else if e.starts_with("panic: ") {
                rep.violation(&format!("walk:{}({}{}):returns→panic", backend, sig_opts, cap.map(|c| format!(",descriptor-cap={}", c)).unwrap_or_default()), wit(e.clone()));
            } else if !exp.is_empty() {
                rep.violation(&format!("walk:{}({}):entries()-Ok→Err({})", backend, sig_opts, e), wit(e.clone()));
            }
            return;
        },
        Ok(g) => g,
    };
    // a filter never lets a rejected item through
    for i in got {
        if let WItem::Entry { path, is_dir, is_file, is_link, .. } = i {
            let ok = match o.filter {
                0 => true,
                1 => *is_dir,
                2 => *is_file,
                3 => base_of(path).starts_with('a'),
                _ => !*is_link,
            };
            if !ok {
                rep.violation(&format!("walk:{}({}):no-item-the-filter-rejects→yielded", backend, sig_opts), wit(format!("{:?}", i)));
                return;
            }
        }
    }
    if multiset(got) != multiset(exp) {
        let what = if got.len() > exp.len() { "extra-or-duplicate-items" } else if got.len() < exp.len() { "missing-items" } else { "different-items" };
        rep.violation(&format!("walk:{}({}):exactly-the-denoted-entries→{}", backend, sig_opts, what), wit(format!("{} items vs {} expected", got.len(), exp.len())));
        return;
    }
    if o.ordered() && !ties {
        if got != exp {
            rep.violation(&format!("walk:{}({}):requested-order→different-sequence", backend, sig_opts), wit("same multiset, different order".into()));
        }
    } else if !o.follow {
        // parent before contents (after with contents_first), judged on positions
        let pos: BTreeMap<&str, usize> = got.iter().enumerate().filter_map(|(i, x)| if let WItem::Entry { path, .. } = x { Some((path.as_str(), i)) } else { None }).collect();
        for (p, i) in &pos {
            if let Some(par) = parent_of(p) {
                if let Some(j) = pos.get(par.as_str()) {
                    let ok = if o.contents_first { j > i } else { j < i };
                    if !ok {
                        rep.violation(
                            &format!("walk:{}({}):{}→violated", backend, sig_opts, if o.contents_first { "contents-before-directory" } else { "directory-before-contents" }),
                            wit(format!("{} at {} vs its directory {} at {}", p, i, par, j)),
                        );
                        return;
                    }
                }
            }
        }
    }
    let _ = ocls;
}

fn option_records() -> Vec<WOpts> {
    let mut v = vec![];
    for min in 0..=3usize {
        for max in [0usize, 1, 2, 3, usize::MAX] {
            for filter in 0..=4u8 {
                for follow in [false, true] {
                    for (sort, df, ff) in [(false, false, false), (true, false, false), (false, true, false), (false, false, true), (true, true, false)] {
                        for cf in [false, true] {
                            v.push(WOpts { min, max: if max == usize::MAX { max } else { max.max(min) }, filter, follow, sort, dirs_first: df, files_first: ff, contents_first: cf });
                        }
                    }
                }
            }
        }
    }
    v
}

fn listing_checks<V: VirtualFileSystem>(v: &V, backend: &str, t: &NTree, map: &dyn Fn(&str) -> String, rep: &mut Report) {
    for (k, n) in &t.nodes {
        if n.kind != NKind::Dir {
            continue;
        }
        let arg = map(k);
        for (name, rec, kindf) in [("paths", false, 0u8), ("dirs", false, 1), ("files", false, 2), ("all_paths", true, 0), ("all_dirs", true, 1), ("all_files", true, 2)] {
            rep.eval();
            let r = match name {
                "paths" => v.paths(&arg),
                "dirs" => v.dirs(&arg),
                "files" => v.files(&arg),
                "all_paths" => v.all_paths(&arg),
                "all_dirs" => v.all_dirs(&arg),
                _ => v.all_files(&arg),
            };
            rep.key_str(&format!("{}|listing|{}|{}", backend, name, t.children(k).len().min(3)));
            let wit = |d: String, got: &Vec<String>| J::obj(vec![("backend", J::s(backend)), ("tree", t.to_json()), ("call", J::s(format!("{}({})", name, k))), ("got", J::strs(got)), ("detail", J::s(d))]);
            let got: Vec<String> = match r {
                Ok(x) => x.iter().map(|p| ps(p)).collect(),
                Err(e) => {
                    rep.violation(&format!("listing:{}({}):Ok→Err", name, backend), wit(e.to_string(), &vec![]));
                    continue;
                },
            };
            let mut d = got.clone();
            d.sort();
            d.dedup();
            if d.len() != got.len() {
                rep.violation(&format!("listing:{}({}):distinct→duplicates", name, backend), wit("duplicates".into(), &got));
            }
            if got.iter().any(|p| !p.starts_with('/')) {
                rep.violation(&format!("listing:{}({}):absolute→relative", name, backend), wit("relative".into(), &got));
            }
            if got.iter().any(|p| *p == arg) {
                rep.violation(&format!("listing:{}({}):excludes-argument→included", name, backend), wit("argument listed".into(), &got));
            }
            // name order among siblings (depth first order for the recursive forms)
            for w in got.windows(2) {
                if parent_of(&w[0]) == parent_of(&w[1]) && base_of(&w[0]) >= base_of(&w[1]) {
                    rep.violation(&format!("listing:{}({}):siblings-name-sorted→unsorted", name, backend), wit(format!("{} before {}", w[0], w[1]), &got));
                    break;
                }
            }
            // agreement with exists / is_dir / is_file, both directions
            for p in &got {
                let ok = match kindf {
                    0 => v.exists(p),
                    1 => v.is_dir(p),
                    _ => v.is_file(p),
                };
                if !ok {
                    let cls = t.class_of(&unmap_any(p, t, map));
                    rep.violation(
                        &format!("listing:{}({}):every-element-satisfies-{}→{}-listed", name, backend, ["exists", "is_dir", "is_file"][kindf as usize], cls),
                        wit(format!("{} is listed but vfs.{}() is false", p, ["exists", "is_dir", "is_file"][kindf as usize]), &got),
                    );
                    break;
                }
            }
            let cand: Vec<String> = t.nodes.keys().filter(|c| if rec { is_under(c, k) && !under_link(t, c, k) } else { parent_of(c).as_deref() == Some(k.as_str()) }).map(|c| map(c)).collect();
            for c in cand {
                let sat = match kindf {
                    0 => v.exists(&c) || t.nodes.contains_key(&unmap_any(&c, t, map)),
                    1 => v.is_dir(&c),
                    _ => v.is_file(&c),
                };
                if sat && !got.contains(&c) {
                    rep.violation(&format!("listing:{}({}):every-satisfying-entry-listed→missing", name, backend), wit(format!("{} is not listed", c), &got));
                    break;
                }
            }
        }
    }
}
fn unmap_any(p: &str, t: &NTree, map: &dyn Fn(&str) -> String) -> String {
    t.nodes.keys().find(|k| map(k) == p).cloned().unwrap_or_else(|| p.to_string())
}
fn under_link(t: &NTree, c: &str, top: &str) -> bool {
    // an ancestor between top and c is a link (not descended into)
    let mut cur = parent_of(c);
    while let Some(p) = cur {
        if p == top {
            return false;
        }
        if matches!(t.nodes.get(&p), Some(NNode { kind: NKind::Link { .. }, .. })) {
            return true;
        }
        cur = parent_of(&p);
    }
    false
}

fn through_link_cycles(sroot: &str, rep: &mut Report) {
    use std::os::unix::fs::symlink;
    // (name of the link to an ancestor, its text, name of the second link, its text, walk root)
    let shapes: [(&str, &str, &str, &str, &str, &str); 6] = [
        // plain cycles (controls: these must and do end)
        ("plain-ancestor-link", "a/a/l", "../..", "", "", "a"),
        ("plain-link-to-root-of-walk", "a/a/l", "..", "", "", "a"),
        ("link-to-link-to-ancestor", "x/l1", "..", "a/a/l2", "../../x/l1", "a"),
        // the second link's target path runs through the first link
        ("target-through-link-to-ancestor", "a/a/a", "../..", "a/a/b/a", "../a/a", "a"),
        ("target-through-link-to-ancestor", "a/z", "..", "a/b/k", "../z/a", "a"),
        ("target-through-link-to-ancestor", "a/a/l", "../..", "a/m", "a/l/a", ""),
    ];
    for (class, l1, t1, l2, t2, walk) in shapes {
        wipe(sroot);
        for d in ["a/a/b", "a/b", "a/c", "x"] {
            let _ = std::fs::create_dir_all(format!("{}/{}", sroot, d));
        }
        let _ = std::fs::write(format!("{}/a/a/f", sroot), b"x");
        let _ = symlink(t1, format!("{}/{}", sroot, l1));
        if !l2.is_empty() {
            let _ = symlink(t2, format!("{}/{}", sroot, l2));
        }
        let root = if walk.is_empty() { sroot.to_string() } else { format!("{}/{}", sroot, walk) };
        for (oname, sort, cfirst) in [("all+follow", false, false), ("all+follow+ordered", true, false), ("all+follow+contents_first", false, true)] {
            rep.eval();
            let cap = 20_000usize;
            set_case(&format!("walk:stdfs({},{}):terminates→stalls", oname, class), &format!("{} -> {}, {} -> {}", l1, t1, l2, t2));
            let mut e = match Stdfs::new().entries(&root) {
                Ok(e) => e.follow(true),
                Err(_) => continue,
            };
            if sort {
                e = e.sort_by_name();
            }
            if cfirst {
                e = e.contents_first();
            }
            let (mut items, mut errors, mut longest) = (0usize, 0usize, 0usize);
            let mut ended = true;
            let walked = catch(|| {
                for x in e {
                    items += 1;
                    match x {
                        Ok(en) => longest = longest.max(en.path().to_string_lossy().len() - sroot.len()),
                        Err(_) => errors += 1,
                    }
                    if items >= cap {
                        ended = false;
                        break;
                    }
                }
            });
            if let Err(msg) = walked {
                rep.violation(&format!("walk:stdfs({},{}):returns→panic", oname, class), J::obj(vec![("tree", J::s(format!("link {} -> {}, link {} -> {}", l1, t1, l2, t2))), ("panic", J::s(msg)), ("items_before", J::Int(items as i64))]));
                continue;
            }
            rep.key_str(&format!("stdfs|directed|{}|{}|{}", oname, class, ended));
            rep.count("directed_link_cycle_walks", 1);
            if !ended {
                rep.violation(
                    &format!("walk:stdfs({},{}):terminates-when-polled-past-errors→still-yielding-after-{}-items", oname, class, cap),
                    J::obj(vec![
                        ("tree", J::s(format!("dirs a/a/b a/b a/c x, file a/a/f, link {} -> {}, link {} -> {}", l1, t1, l2, t2))),
                        ("walk", J::s(format!("Stdfs entries({}).follow(true) [{}]", if walk.is_empty() { "<root>" } else { walk }, oname))),
                        ("items", J::Int(items as i64)),
                        ("errors_among_them", J::Int(errors as i64)),
                        ("longest_path_below_root", J::Int(longest as i64)),
                    ]),
                );
            }
        }
    }
    wipe(sroot);
}

fn c08(ctx: &Ctx, rep: &mut Report) {
    let (sb, sroot) = Sandbox::nested("c08");
    let recs = option_records();
    let mut rng = ctx.rng("c08");
    let trees = if ctx.thorough { 40_000 } else { 4_000 } / ctx.shards + 1;
    let stride = if ctx.thorough { 1 } else { 3 };
    let max_nodes = if ctx.thorough { 25 } else { 12 };
    if ctx.shard == 0 {
        rep.count("option_records", recs.len() as u64);
    }
    for ti in 0..trees {
        // half of the trees carry link-to-link chains; those are only walked without follow
        let chains = ti % 2 == 1;
        let t = gen_tree(&mut rng, max_nodes, chains);
        let mem = match materialise_memfs(&t, "") {
            Ok(m) => m,
            Err(_) => {
                // link kinds recorded at creation may differ from the generated flags; rebuild is not possible: skip
                rep.count("trees_not_materialisable", 1);
                continue;
            },
        };
        // use what Memfs really holds as the reference tree (link kinds as recorded at creation)
        let t = memfs_ntree(&mem.verif_snapshot());
        let shape = shape_class(&t);
        let on_disk = ti % 8 == 0 && in_domain_state(&t) && {
            wipe(&sroot);
            materialise_disk(&t, &sroot).is_ok()
        };
        // every eighth tree that holds links to nothing (and is otherwise expressible) goes to disk too: walked
        // there without follow, where such a link is an entry of neither kind and still has its place in the order
        let dangling_on_disk = !on_disk
            && ti % 8 == 4
            && t.nodes.values().any(|n| matches!(&n.kind, NKind::Link { target, .. } if !t.nodes.contains_key(target)))
            && t.nodes.values().all(|n| match &n.kind {
                NKind::Link { target, .. } => !matches!(t.nodes.get(target), Some(NNode { kind: NKind::Link { .. }, .. })),
                _ => true,
            })
            && {
                wipe(&sroot);
                materialise_disk(&t, &sroot).is_ok()
            };
        let roots: Vec<String> = {
            let mut r = vec!["/".to_string()];
            let keys: Vec<String> = t.nodes.keys().cloned().collect();
            r.push(rng.pick(&keys).clone());
            r
        };
        let off = rng.below(stride);
        for (oi, o) in recs.iter().enumerate() {
            if oi % stride != off {
                continue;
            }
            if o.follow && chains {
                continue;
            }
            for root in &roots {
                rep.eval();
                let mut exp = vec![];
                let mut ties = false;
                let mut budget = 5000;
                ref_walk(&t, root, 0, o, &mut vec![], &mut exp, &mut ties, &mut budget);
                if budget == 0 {
                    rep.count("reference_walk_budget_exhausted", 1);
                    continue;
                }
                let limit = 2 * exp.len() + 8;
                set_case(&format!("walk:memfs({}):terminates→stalls", o.class()), &format!("{:?}", o));
                let got = run_real(&mem, root, o, None, limit);
                rep.key_str(&format!("memfs|{}|{}|{}", o.class(), shape, exp.iter().any(|x| matches!(x, WItem::Err(_)))));
                check_case("memfs", &t, root, o, &got, &exp, ties, None, rep);
                // descriptor caps: same constrained sequence
                if oi % 5 == 0 {
                    for cap in [0u16, 1, 2] {
                        let g2 = run_real(&mem, root, o, Some(cap), limit);
                        rep.count("descriptor_cap_runs", 1);
                        let same = match (&got, &g2) {
                            (Ok(a), Ok(b)) => {
                                if o.ordered() && !ties {
                                    a == b
                                } else {
                                    multiset(a) == multiset(b)
                                }
                            },
                            (Err(a), Err(b)) => a == b,
                            _ => false,
                        };
                        if !same {
                            rep.violation(
                                &format!("walk:memfs({}):independent-of-descriptor-cap→differs(cap={})", if o.contents_first { "contents_first" } else { "default" }, cap),
                                J::obj(vec![("tree", t.to_json()), ("options", J::s(format!("{:?}", o))), ("cap_default", J::s(format!("{:?}", got))), ("capped", J::s(format!("{:?}", g2)))]),
                            );
                        }
                    }
                }
                if dangling_on_disk && !o.follow {
                    let mapped_root = if root == "/" { sroot.clone() } else { format!("{}{}", sroot, root) };
                    REAL_DANGLING.with(|c| c.set(true));
                    let mut exp = vec![];
                    let (mut ties, mut budget) = (false, 5000);
                    ref_walk(&t, root, 0, o, &mut vec![], &mut exp, &mut ties, &mut budget);
                    REAL_DANGLING.with(|c| c.set(false));
                    set_case(&format!("walk:stdfs({},links-to-nothing):terminates→stalls", o.class()), &format!("{:?}", o));
                    let g = run_real(&Stdfs::new(), &mapped_root, o, None, 2 * exp.len() + 8).map(|v| {
                        v.into_iter()
                            .map(|i| match i {
                                WItem::Entry { path, alt, is_dir, is_file, is_link, following } => {
                                    WItem::Entry { path: unmap_str(&path, &sroot), alt: if alt.is_empty() { alt } else { unmap_str(&alt, &sroot) }, is_dir, is_file, is_link, following }
                                },
                                e => e,
                            })
                            .collect::<Vec<_>>()
                    });
                    rep.eval();
                    rep.count("real_walks_over_trees_with_links_to_nothing", 1);
                    rep.key_str(&format!("stdfs-dangling|{}|{}", o.class(), shape));
                    check_case("stdfs", &t, root, o, &g, &exp, ties, None, rep);
                }
                if on_disk && oi % 3 == 0 {
                    let mapped_root = if root == "/" { sroot.clone() } else { format!("{}{}", sroot, root) };
                    set_case(&format!("walk:stdfs({}):terminates→stalls", o.class()), &format!("{:?}", o));
                    let g = run_real(&Stdfs::new(), &mapped_root, o, None, limit).map(|v| {
                        v.into_iter()
                            .map(|i| match i {
                                WItem::Entry { path, alt, is_dir, is_file, is_link, following } => {
                                    WItem::Entry { path: unmap_str(&path, &sroot), alt: if alt.is_empty() { alt } else { unmap_str(&alt, &sroot) }, is_dir, is_file, is_link, following }
                                },
                                e => e,
                            })
                            .collect::<Vec<_>>()
                    });
                    rep.eval();
                    rep.key_str(&format!("stdfs|{}|{}", o.class(), shape));
                    // the sandbox root has a real file name, the virtual "/" has none: a followed link to it sorts differently
                    let root_link = o.follow && t.nodes.values().any(|n| matches!(&n.kind, NKind::Link { target, .. } if target == "/"));
                    check_case("stdfs", &t, root, o, &g, &exp, ties || root_link, None, rep);
                }
            }
        }
        if let Err(msg) = catch(|| listing_checks(&mem, "memfs", &t, &|k| k.to_string(), rep)) {
            rep.violation("listing:memfs:returns→panic", J::obj(vec![("tree", t.to_json()), ("panic", J::s(msg))]));
        }
        if on_disk {
            let sr = sroot.clone();
            if let Err(msg) = catch(|| listing_checks(&Stdfs::new(), "stdfs", &t, &move |k| if k == "/" { sr.clone() } else { format!("{}{}", sr, k) }, rep)) {
                rep.violation("listing:stdfs:returns→panic", J::obj(vec![("tree", t.to_json()), ("panic", J::s(msg))]));
            }
        }
        if rep.want_sample() && t.nodes.len() > 6 {
            let o = &recs[(ti * 37) % recs.len()];
            let mut exp = vec![];
            let (mut ties, mut budget) = (false, 5000);
            ref_walk(&t, "/", 0, o, &mut vec![], &mut exp, &mut ties, &mut budget);
            rep.sample(J::obj(vec![("tree", t.to_json()), ("options", J::s(format!("{:?}", o))), ("expected_sequence", J::Arr(exp.iter().map(|x| J::s(format!("{:?}", x))).collect()))]));
        }
    }
    // directed family, real backend only: link cycles whose link TARGET PATH passes through another link (the random
    // reference trees cannot express that: a link has no children there). Judged on termination alone, polling
    // past every error like a consumer that skips failed items
    if ctx.shard == 0 {
        through_link_cycles(&sroot, rep);
    }
    // one traversal over more directories than a 16-bit counter can count (66 000 siblings, each opened once, sorted
    // and unsorted): every one of them comes out exactly once and nothing panics in the checked-arithmetic profile
    if ctx.shard == 1 % ctx.shards {
        let n = 66_000usize;
        let m = Memfs::new();
        let _ = m.mkdir_p("/big");
        for i in 0..n {
            let _ = m.mkdir_p(format!("/big/d{:05}", i));
        }
        let _ = m.write_all("/big/zfile", b"x");
        for (name, sorted) in [("all_dirs", true), ("entries().dirs()", false), ("entries().sort_by_name().dirs_first()", true)] {
            rep.eval();
            set_case(&format!("walk:memfs(wide-tree,{}):terminates→stalls", name), "66000 sibling directories");
            let mref = &m;
            let r = catch(|| -> Result<Vec<String>, String> {
                match name {
                    "all_dirs" => mref.all_dirs("/big").map(|v| v.iter().map(|p| p.to_string_lossy().to_string()).collect()).map_err(|e| e.to_string()),
                    "entries().dirs()" => {
                        let mut out = vec![];
                        for e in mref.entries("/big").map_err(|e| e.to_string())?.min_depth(1).dirs().into_iter() {
                            out.push(e.map_err(|e| e.to_string())?.path().to_string_lossy().to_string());
                        }
                        Ok(out)
                    },
                    _ => {
                        let mut out = vec![];
                        for e in mref.entries("/big").map_err(|e| e.to_string())?.min_depth(1).sort_by_name().dirs_first().into_iter() {
                            let e = e.map_err(|e| e.to_string())?;
                            if e.is_dir() {
                                out.push(e.path().to_string_lossy().to_string());
                            }
                        }
                        Ok(out)
                    },
                }
            });
            rep.key_str(&format!("memfs|wide-tree|{}", name));
            rep.count("wide_tree_traversals", 1);
            match r {
                Err(msg) => rep.violation(&format!("walk:memfs(wide-tree,{}):returns→panic", name), J::s(msg)),
                Ok(Err(e)) => rep.violation(&format!("walk:memfs(wide-tree,{}):Ok→Err", name), J::s(e)),
                Ok(Ok(v)) => {
                    let distinct: std::collections::BTreeSet<&String> = v.iter().collect();
                    if v.len() != n || distinct.len() != n {
                        rep.violation(&format!("walk:memfs(wide-tree,{}):every-directory-exactly-once→{}-items-{}-distinct", name, if v.len() < n { "fewer" } else { "more" }, distinct.len()), J::s(format!("{} items", v.len())));
                    } else if sorted && v.windows(2).any(|w| w[0] >= w[1]) {
                        rep.violation(&format!("walk:memfs(wide-tree,{}):name-order→unsorted", name), J::Null);
                    }
                },
            }
        }
    }
    // a 60-deep chain without the hook: more open directories than the internal descriptor cap of 50
    if ctx.shard == 0 {
        let m = Memfs::new();
        let mut p = String::new();
        for i in 0..60 {
            p.push_str(&format!("/d{}", i));
        }
        let _ = m.mkdir_p(&p);
        let _ = m.write_all(format!("{}/leaf", p), b"x");
        let t = memfs_ntree(&m.verif_snapshot());
        let dp = format!("{}/deep", sroot);
        let _ = std::fs::create_dir_all(format!("{}{}", dp, p));
        let _ = std::fs::write(format!("{}{}/leaf", dp, p), b"x");
        for o in option_records().iter().filter(|o| o.min == 0 && o.max == usize::MAX && o.filter <= 2) {
            rep.eval();
            let mut exp = vec![];
            let (mut ties, mut budget) = (false, 5000);
            ref_walk(&t, "/", 0, o, &mut vec![], &mut exp, &mut ties, &mut budget);
            let got = run_real(&m, "/", o, None, 2 * exp.len() + 8);
            rep.key_str(&format!("memfs|deep-chain|{}", o.class()));
            check_case("memfs", &t, "/", o, &got, &exp, ties, None, rep);
            // the same on the real filesystem (61 nested directories need more than 50 open descriptors at once)
            let g = run_real(&Stdfs::new(), &dp, o, None, 2 * exp.len() + 8).map(|v| {
                v.into_iter()
                    .map(|i| match i {
                        WItem::Entry { path, alt, is_dir, is_file, is_link, following } => WItem::Entry { path: unmap_str(&path, &dp), alt, is_dir, is_file, is_link, following },
                        e => e,
                    })
                    .collect::<Vec<_>>()
            });
            rep.eval();
            rep.key_str(&format!("stdfs|deep-chain|{}", o.class()));
            check_case("stdfs", &t, "/", o, &g, &exp, ties, None, rep);
        }
    }
    drop(sb);
}
