// C05: abs() gives a clean absolute path, identically on both backends; every method resolves through it
use std::process::Command;

use rivia::prelude::*;

use super::{memfs::*, Prop};
use crate::{fsops::*, infra::*, model::tree_from, refs::*, stdside::*};

pub fn props() -> Vec<Prop> {
    vec![Prop {
        id: "C05",
        run: c05,
        tools: Some(no_io_trace),
        rule: "oracle 1: Memfs::abs under every cwd of a bounded tree (one of them entered through a link to a directory elsewhere) and Stdfs::abs under the matching process cwd are compared with a string-level reference (expand, trim protocol, Go-clean, resolve leading '..' against the cwd) for every string up to length 6 (quick) / 8 (thorough) over {/ . ~ $ : a e-acute}, scheme-prefixed variants and seeded random longer strings, with HOME in {/h, /h/e-acute, /} (one value per worker process) and a fixed list of home-shortcut and $HOME spellings under HOME values that are not clean absolute paths themselves (trailing separator, inner .., relative, scheme-prefixed); the result must be absolute, free of '.', '..', '//' and trailing '/', idempotent, and equal on both backends. oracle 2 (spelling independence): for prepared states x every path-taking method x every spelling of the argument (relative to the cwd, ./x, x/, x/., doubled separator, x/../x, file://, ~, $HOME, ${HOME}) the call on one instance and the call with abs(argument) on an identical instance must give equal results and equal complete states - Memfs through the hook snapshot, Stdfs through the disk observer. oracle 3 (no IO): strace -e trace=%file of a child that brackets 10^4 abs() calls per backend between marker syscalls; nothing may appear between the markers (getcwd is allowed for the real backend only in the section whose inputs are relative; a third section holds only absolute, ~, $HOME and scheme-prefixed inputs); the same child then removes its own working directory and the absolute inputs must still give what the in-memory backend gives, / must still exist and set_cwd must lead out. distinct_nontrivial = distinct (backend, cwd, string class, outcome class) tuples + (method, spelling kind).",
        assumptions: &["non-UTF-8 paths are outside 'every non-empty path string'", "strings whose variable name is not delimited unambiguously are not judged", "'no IO' is decided on the syscall trace of the workload that ran"],
        shards_quick: 8,
        shards_thorough: 16,
        budget_quick_s: 300,
        budget_thorough_s: 1800,
        min_evals: 100_000,
        exhaustive_capable: true,
    }]
}

fn str_class(s: &str) -> String {
    let mut v = vec![];
    if s.starts_with('/') {
        v.push("abs");
    }
    if s.contains("..") {
        v.push("dotdot");
    }
    if s.contains("//") {
        v.push("dblsep");
    }
    if s.contains('~') {
        v.push("tilde");
    }
    if s.contains('$') {
        v.push("dollar");
    }
    if s.contains("://") {
        v.push("scheme");
    }
    if !s.is_ascii() {
        v.push("multibyte");
    }
    if v.is_empty() {
        "plain".into()
    } else {
        v.join("+")
    }
}

fn well_formed(a: &str) -> bool {
    a.starts_with('/') && (a == "/" || (!a.ends_with('/') && !a.contains("//") && !a.split('/').any(|c| c == "." || c == "..")))
}

fn c05_strings(ctx: &Ctx, rep: &mut Report, home: &str, sroot: &str, only: Option<&[&str]>) {
    let env: Env = [("HOME".to_string(), home.to_string())].into_iter().collect();
    // Memfs instance with every cwd we use; the Stdfs side uses real directories of the same names
    let cwds_virtual = ["/", "/a", "/a/b", "/é"];
    let mem = Memfs::new();
    let mut cwds: Vec<(String, String)> = vec![]; // (memfs cwd, real cwd)
    for c in cwds_virtual {
        let real = if c == "/" { sroot.to_string() } else { format!("{}{}", sroot, c) };
        let _ = std::fs::create_dir_all(&real);
        let _ = mem.mkdir_p(&real);
        let _ = mem.mkdir_p(c);
        cwds.push((c.to_string(), real));
    }
    // in-memory backend only: a working directory that was entered through a LINK to a directory, two levels away
    // from where the link lives. The statement is lexical - ".." leaves it towards the link's parent, whatever the
    // entries say (the real backend's cwd is the resolved directory, so there is no counterpart there)
    let _ = mem.mkdir_p("/far/away/deep");
    let _ = mem.symlink("/lk", "/far/away/deep");
    if mem.set_cwd("/lk").is_ok() {
        cwds.push(("/lk".to_string(), String::new()));
    }
    let max = if ctx.thorough { 8 } else { 6 };
    let alpha = ["/", ".", "~", "$", ":", "a", "é"];
    let mut check = |s: &str, rep: &mut Report| {
        for (ci, (vc, real)) in cwds.iter().enumerate() {
            // Memfs under the virtual cwd, and Memfs + Stdfs under the real cwd string
            for (which, cwd) in [("memfs", vc.as_str()), ("memfs@real", real.as_str()), ("stdfs", real.as_str())] {
                if which != "memfs" && ci % 2 == 1 && s.len() > 3 {
                    continue; // thin the real-cwd half
                }
                if which != "memfs" && real.is_empty() {
                    continue; // the link cwd exists in memory only
                }
                rep.eval();
                let expected = ref_abs(&env, cwd, s);
                let got = catch(|| {
                    if which == "stdfs" {
                        let _ = std::env::set_current_dir(cwd);
                        Stdfs::abs(s)
                    } else {
                        let _ = mem.set_cwd(cwd);
                        mem.abs(s)
                    }
                });
                let cls = str_class(s);
                let wit = |exp: String, got: String| J::obj(vec![("backend", J::s(which)), ("cwd", J::s(cwd.replace(sroot, "<R>"))), ("HOME", J::s(home)), ("input", J::s(s)), ("expected", J::s(exp.replace(sroot, "<R>"))), ("got", J::s(got.replace(sroot, "<R>")))]);
                let got = match got {
                    Err(m) => {
                        rep.violation(&format!("abs:{}({}):returns→panic", which.split('@').next().unwrap(), cls), wit("no panic".into(), m));
                        continue;
                    },
                    Ok(g) => g.map(|p| ps(&p)).map_err(|e| err_kind(&e)),
                };
                let b = which.split('@').next().unwrap();
                match expected {
                    None => rep.count("unspecified_expansion_not_judged", 1),
                    Some(Err(())) => {
                        if let Ok(g) = &got {
                            let why = if s.is_empty() { "empty" } else if s.contains('~') || s.contains('$') { "invalid-expansion" } else { "dotdot-above-root" };
                            rep.violation(&format!("abs:{}({},{}):Err→Ok", b, cls, why), wit("Err".into(), g.clone()));
                        }
                        rep.key_str(&format!("{}|{}|{}|err", b, if cwd == "/" { "root" } else { "sub" }, cls));
                    },
                    Some(Ok(e)) => {
                        match &got {
                            Ok(g) if *g == e => {
                                if !well_formed(g) {
                                    rep.violation(&format!("abs:{}({}):clean-absolute→malformed", b, cls), wit(e.clone(), g.clone()));
                                }
                            },
                            Ok(g) => rep.violation(&format!("abs:{}({}):lexical-join-onto-cwd→differs", b, cls), wit(e.clone(), g.clone())),
                            Err(k) => rep.violation(&format!("abs:{}({}):Ok→Err({})", b, cls, k), wit(e.clone(), k.clone())),
                        }
                        if e != *s {
                            rep.key_str(&format!("{}|{}|{}|ok", b, if cwd == "/" { "root" } else { "sub" }, cls));
                        }
                        // idempotence
                        if let Ok(g) = &got {
                            let again = if which == "stdfs" { Stdfs::abs(g).map(|p| ps(&p)).ok() } else { mem.abs(g).map(|p| ps(&p)).ok() };
                            if again.as_ref() != Some(g) {
                                rep.violation(&format!("abs:{}({}):idempotent→differs", b, cls), wit(g.clone(), format!("{:?}", again)));
                            }
                        }
                    },
                }
            }
        }
    };
    if let Some(list) = only {
        // a fixed list under this HOME, by every worker (not partitioned)
        for s in list {
            check(s, rep);
            rep.count("home_spelling_checks", 1);
        }
        return;
    }
    for_all_strings(&alpha, max, |i, s| {
        if ctx.mine(i) {
            check(s, rep);
            if i % 11 == 0 && !s.is_empty() {
                for pre in ["file://", "FTP://", "http://", "HTTPS://", "file:/", "ssh://"] {
                    check(&format!("{}{}", pre, s), rep);
                }
            }
        }
    });
    // every path of up to 6 (quick) / 7 (thorough) components from {.., ., a, e-acute, empty}, relative and rooted:
    // the shapes clean() has to get right ("../a/../..", "a/./../../b", "/../a/..") are all in here
    let comps = ["..", ".", "a", "é", ""];
    let cmax = if ctx.thorough { 8 } else { 6 };
    let mut cidx = 0u64;
    for_all_strings(&["0", "1", "2", "3", "4"], cmax, |_, code| {
        cidx += 1;
        if !ctx.mine(cidx) || code.is_empty() {
            return;
        }
        let parts: Vec<&str> = code.bytes().map(|b| comps[(b - b'0') as usize]).collect();
        let rel = parts.join("/");
        if !rel.is_empty() {
            check(&rel, rep);
        }
        check(&format!("/{}", rel), rep);
    });
    let toks = ["/", ".", "..", "~", "~/", "$HOME", "${HOME}", "$", "a", "é", "b c", "//", "file://", "€😀"];
    let mut rng = ctx.rng("c05-random");
    for _ in 0..(if ctx.thorough { 2_000_000 } else { 20_000 } / ctx.shards) {
        let mut s = String::new();
        for _ in 0..1 + rng.below(9) {
            s.push_str(toks[rng.below(toks.len())]);
        }
        check(&s, rep);
    }
    let _ = std::env::set_current_dir(sroot);
    if rep.want_sample() {
        rep.sample(J::obj(vec![
            ("HOME", J::s(home)),
            ("cwd", J::s("/a/b")),
            ("examples", J::Arr(["a/../../é", "~/./a//", "file:///a/b/..", "${HOME}/../x", "../../.."].iter().map(|s| J::s(format!("{} -> {:?}", s, ref_abs(&env, "/a/b", s)))).collect())),
        ]));
    }
}

fn spelled_ops(p: &str) -> Vec<Op> {
    let p = p.to_string();
    vec![
        Op::MkdirP(p.clone()),
        Op::MkdirM(p.clone(), 0o711),
        Op::Mkfile(p.clone()),
        Op::MkfileM(p.clone(), 0o600),
        Op::WriteAll(p.clone(), b"w".to_vec()),
        Op::WriteLines(p.clone(), vec!["l".into()]),
        Op::AppendAll(p.clone(), b"a".to_vec()),
        Op::AppendLine(p.clone(), "x".into()),
        Op::AppendLines(p.clone(), vec!["y".into()]),
        Op::WriteH(p.clone(), b"h".to_vec()),
        Op::AppendH(p.clone(), b"k".to_vec()),
        Op::ReadAll(p.clone()),
        Op::ReadLines(p.clone()),
        Op::ReadBytes(p.clone()),
        Op::Remove(p.clone()),
        Op::RemoveAll(p.clone()),
        Op::Readlink(p.clone()),
        Op::ReadlinkAbs(p.clone()),
        Op::Chmod(p.clone(), 0o700),
        Op::Chown(p.clone(), 1000, 1000),
        Op::SetCwd(p.clone()),
        Op::Exists(p.clone()),
        Op::IsDir(p.clone()),
        Op::IsFile(p.clone()),
        Op::IsSymlink(p.clone()),
        Op::IsSymlinkDir(p.clone()),
        Op::IsSymlinkFile(p.clone()),
        Op::IsExec(p.clone()),
        Op::IsReadonly(p.clone()),
        Op::Mode(p.clone()),
        Op::Owner(p.clone()),
        Op::Uid(p.clone()),
        Op::Gid(p.clone()),
        Op::Entry(p.clone()),
        Op::Paths(p.clone()),
        Op::Dirs(p.clone()),
        Op::Files(p.clone()),
        Op::AllPaths(p.clone()),
        Op::AllDirs(p.clone()),
        Op::AllFiles(p.clone()),
        Op::Entries(p.clone()),
        Op::MoveP(p.clone(), "/zz".into()),
        Op::MoveP("/a/f".into(), p.clone()),
        Op::Copy(p.clone(), "/zz".into()),
        Op::Copy("/a/f".into(), p.clone()),
        Op::Symlink(p.clone(), "/a".into()),
        // (the target of symlink() is documented to be relative to the link's directory, not an abs() argument)
    ]
}
fn spelling_kind(sp: &str, canonical: &str) -> &'static str {
    if sp == canonical {
        "canonical"
    } else if sp.starts_with("file://") {
        "file://"
    } else if sp.starts_with('~') {
        "~"
    } else if sp.starts_with("${") {
        "${HOME}"
    } else if sp.starts_with('$') {
        "$HOME"
    } else if sp.contains("/../") {
        "x/../x"
    } else if sp.ends_with("/.") {
        "x/."
    } else if sp.ends_with('/') {
        "x/"
    } else if sp.contains("//") {
        "doubled-sep"
    } else if sp.starts_with("./") {
        "./x"
    } else if !sp.starts_with('/') {
        "relative"
    } else {
        "other"
    }
}

fn prepared_state() -> NTree {
    // /a (HOME) with a file, a dir, a link to a dir and a link to a file; cwd /a/d
    let mut t = NTree::fresh();
    let n = |k: NKind, m: u32| NNode { kind: k, mode: m, uid: 1000, gid: 1000 };
    t.nodes.insert("/a".into(), n(NKind::Dir, 0o40755));
    t.nodes.insert("/a/d".into(), n(NKind::Dir, 0o40755));
    t.nodes.insert("/a/d/g".into(), n(NKind::File(b"g".to_vec()), 0o100644));
    t.nodes.insert("/a/f".into(), n(NKind::File(b"one\ntwo\n".to_vec()), 0o100644));
    t.nodes.insert("/a/ld".into(), n(NKind::Link { target: "/a/d".into(), dir: true }, 0o120777));
    t.nodes.insert("/a/lf".into(), n(NKind::Link { target: "/a/f".into(), dir: false }, 0o120777));
    t.nodes.insert("/b".into(), n(NKind::Dir, 0o40755));
    t.cwd = "/a/d".into();
    t
}

fn c05_spellings(ctx: &Ctx, rep: &mut Report, sroot: &str) {
    let state = prepared_state();
    let model = tree_from(&state, HOME);
    let targets = ["/a", "/a/d", "/a/d/g", "/a/f", "/a/ld", "/a/lf", "/b", "/a/new", "/b/new", "/a/d/new"];
    let mut idx = 0u64;
    for tgt in targets {
        let sps = spellings(tgt, &state.cwd);
        for sp in sps.iter().skip(1) {
            // only spellings that denote the same location (sanity through the reference)
            if model.abs(sp) != Some(Ok(tgt.to_string())) {
                continue;
            }
            let kind = spelling_kind(sp, tgt);
            for (op_s, op_c) in spelled_ops(sp).into_iter().zip(spelled_ops(tgt).into_iter()) {
                idx += 1;
                if !ctx.mine(idx) {
                    continue;
                }
                rep.eval();
                rep.key_str(&format!("spelling|{}|{}", op_s.name(), kind));
                // ---- Memfs: two identical instances
                let (ma, mb) = match (materialise_memfs(&state, ""), materialise_memfs(&state, "")) {
                    (Ok(a), Ok(b)) => (a, b),
                    _ => {
                        rep.inconclusive("could not build the prepared Memfs state");
                        return;
                    },
                };
                let _ = ma.set_cwd(&state.cwd);
                let _ = mb.set_cwd(&state.cwd);
                set_case(&format!("spelling:{}({}):returns→stalls", op_s.name(), kind), &op_s.describe());
                let (ra, rb) = (exec(&ma, &op_s), exec(&mb, &op_c));
                let (sa, sb) = (memfs_ntree(&ma.verif_snapshot()), memfs_ntree(&mb.verif_snapshot()));
                if ra != rb || sa != sb {
                    rep.violation(
                        &format!("spelling:{}(memfs,{}):same-as-abs(path)→{}", op_s.name(), kind, if ra != rb { "result differs" } else { "state differs" }),
                        J::obj(vec![("call_spelled", J::s(op_s.describe())), ("call_canonical", J::s(op_c.describe())), ("cwd", J::s(&state.cwd)), ("spelled", J::s(ra.short())), ("canonical", J::s(rb.short())), ("state_diff", J::s(sa.diff(&sb)))]),
                    );
                }
                // ---- Stdfs: the same state materialised twice (file:// and $HOME need the sandbox prefix)
                if idx % 3 == 0 {
                    std::env::set_var("HOME", format!("{}{}", sroot, HOME));
                    let a = stdfs_step(sroot, &state, &op_s);
                    let b = stdfs_step(sroot, &state, &op_c);
                    std::env::set_var("HOME", HOME);
                    if let (Some((ra, _, pa)), Some((rb, _, pb))) = (a, b) {
                        rep.eval();
                        rep.key_str(&format!("spelling-stdfs|{}|{}", op_s.name(), kind));
                        let (ca, cb) = (comparable(&pa), comparable(&pb));
                        if ra != rb || ca != cb {
                            rep.violation(
                                &format!("spelling:{}(stdfs,{}):same-as-abs(path)→{}", op_s.name(), kind, if ra != rb { "result differs" } else { "tree differs" }),
                                J::obj(vec![("call_spelled", J::s(op_s.describe())), ("call_canonical", J::s(op_c.describe())), ("cwd", J::s(&state.cwd)), ("spelled", J::s(ra.short())), ("canonical", J::s(rb.short())), ("tree_diff", J::s(diff_maps(&ca, &cb)))]),
                            );
                        }
                    }
                }
            }
        }
    }
}

fn c05(ctx: &Ctx, rep: &mut Report) {
    let homes = ["/h", "/h/é", "/"];
    let home = homes[ctx.shard % homes.len()];
    std::env::set_var("HOME", home);
    let (sb, sroot) = Sandbox::nested("c05");
    c05_strings(ctx, rep, home, &sroot, None);
    // HOME values that are not themselves clean absolute paths (trailing separator, an inner "..", relative, a
    // scheme): what comes out of the expansion goes through the same trimming, cleaning and joining as anything
    // else - also when the argument is the home shortcut by itself
    let odd_homes = ["/h/", "/x/../h", "rel/d", "/h//é/.", "/", "file:///h"];
    let odd = odd_homes[ctx.shard % odd_homes.len()];
    std::env::set_var("HOME", odd);
    let tilde_inputs = ["~", "~/", "~/.", "~//", "~/a", "~/..", "~/../x", "$HOME", "${HOME}", "${HOME}/", "$HOME/a/..", "./~", "a/../~"];
    c05_strings(ctx, rep, odd, &sroot, Some(&tilde_inputs));
    std::env::set_var("HOME", HOME);
    let sroot2 = format!("{}/sp", sroot);
    let _ = std::fs::create_dir_all(&sroot2);
    c05_spellings(ctx, rep, &sroot2);
    drop(sb);
}

/// oracle 3: the syscall trace between two marker syscalls must be empty (run by the parent)
fn no_io_trace(_ctx: &Ctx, rep: &mut Report) -> Vec<J> {
    let exe = std::env::current_exe().unwrap();
    let dir = format!("{}/runs/C05", crate::verif_dir());
    let log = format!("{}/strace.log", dir);
    let _ = std::fs::remove_file(&log);
    let out = Command::new("strace").args(["-f", "-e", "trace=%file", "-o", &log]).arg(&exe).args(["envprobe", "absio"]).env("HOME", "/h").output();
    let mut notes = vec![];
    match out {
        Err(e) => {
            rep.inconclusive(&format!("strace could not be started: {}", e));
        },
        Ok(o) if !o.status.success() => rep.inconclusive(&format!("strace child failed: {:?}", o.status)),
        Ok(o) => {
            let text = std::fs::read_to_string(&log).unwrap_or_default();
            let mut section: Option<String> = None;
            let mut seen_sections = 0;
            let mut inside: Vec<(String, String)> = vec![];
            for line in text.lines() {
                if let Some(i) = line.find("__verif_begin_") {
                    let name: String = line[i + 14..].chars().take_while(|c| c.is_ascii_alphanumeric()).collect();
                    section = Some(name);
                    seen_sections += 1;
                    continue;
                }
                if line.contains("__verif_end") {
                    section = None;
                    continue;
                }
                if let Some(s) = &section {
                    // getcwd is how the real backend learns the cwd: the one call the statement's "no IO" allows
                    let is_getcwd = line.split_whitespace().nth(1).map(|x| x.starts_with("getcwd(")).unwrap_or(false) || line.trim_start().starts_with("getcwd(");
                    // (section "stdfsabs" holds only inputs that do not depend on the cwd: there it is IO like any other)
                    if s == "stdfs" && is_getcwd {
                        continue;
                    }
                    if line.contains('(') && !line.contains("+++") && !line.contains("---") {
                        inside.push((s.clone(), line.to_string()));
                    }
                }
            }
            rep.evals += 1;
            rep.key_str("no-io|memfs");
            rep.key_str("no-io|stdfs");
            rep.key_str("no-io|stdfsabs");
            rep.count("strace_sections_seen", seen_sections as u64);
            rep.count("strace_file_syscalls_between_markers", inside.len() as u64);
            if seen_sections < 3 {
                rep.inconclusive("the strace log does not show all three marker sections");
            }
            // the part of the child that ran with its working directory removed
            let stdout = String::from_utf8_lossy(&o.stdout).to_string();
            let mut rm_lines = 0;
            for l in stdout.lines().filter(|l| l.starts_with("RMCWD\t")) {
                let f: Vec<&str> = l.split('\t').collect();
                if f.len() < 4 {
                    continue;
                }
                rm_lines += 1;
                rep.evals += 1;
                rep.key_str(&format!("rmcwd|{}|{}", f[1], if f[2].starts_with("Ok") { "ok" } else { "err" }));
                if f[2] != f[3] {
                    rep.violation(
                        &format!("abs:stdfs-with-removed-cwd({}):{}→{}", f[1], f[3].split('(').next().unwrap_or(""), f[2].split('(').next().unwrap_or("")),
                        J::obj(vec![("call", J::s(f[1])), ("observed", J::s(f[2])), ("expected", J::s(f[3]))]),
                    );
                }
            }
            rep.count("removed_cwd_observations", rm_lines as u64);
            if rm_lines == 0 {
                rep.inconclusive("the removed-cwd part of the child reported nothing");
            }
            for (s, l) in inside.iter().take(3) {
                rep.violation(&format!("abs:{}:no-IO→file-syscall", s), J::obj(vec![("backend", J::s(s)), ("syscall", J::s(l))]));
            }
            notes.push(J::obj(vec![
                ("tool", J::s("strace -f -e trace=%file")),
                ("sections", J::Int(seen_sections as i64)),
                ("abs_calls_per_section", J::Int(10_000)),
                ("file_syscalls_between_markers", J::Int(inside.len() as i64)),
            ]));
        },
    }
    notes
}

/// child side of oracle 3
pub fn absio_child() {
    let mem = Memfs::new();
    let _ = mem.mkdir_p("/a/b");
    let inputs = ["a", "./a/b", "../x", "/a/../b", "~/c", "$HOME/d", "file:///e", "/does/not/exist", "a//b/./c/..", "/a/b"];
    let marker = |name: &str| {
        let c = std::ffi::CString::new(name).unwrap();
        unsafe { libc::access(c.as_ptr(), 0) };
    };
    marker("/__verif_begin_memfs");
    for i in 0..10_000 {
        let _ = mem.abs(inputs[i % inputs.len()]);
    }
    marker("/__verif_end");
    marker("/__verif_begin_stdfs");
    for i in 0..10_000 {
        let _ = Stdfs::abs(inputs[i % inputs.len()]);
    }
    marker("/__verif_end");
    // inputs that name a place without the help of the cwd: not even the cwd may be asked for
    let absolute = ["/", "/a/b", "/a/../b", "~/c", "$HOME/d", "file:///e", "/does/not/exist", "//a//b/./c/..", "file:///usr/share/", "/a/b/../../c"];
    marker("/__verif_begin_stdfsabs");
    for i in 0..10_000 {
        let _ = Stdfs::abs(absolute[i % absolute.len()]);
    }
    marker("/__verif_end");

    // The same inputs from a working directory that was removed under the process: the answer cannot depend on it
    // (what the in-memory backend says from any cwd is the reference), and the way out of that directory still works.
    let scratch = format!("{}/runs/C05/rmcwd-{}", crate::verif_dir(), std::process::id());
    let show = |r: RvResult<PathBuf>| match r {
        Ok(p) => format!("Ok({})", p.display()),
        Err(e) => format!("Err({})", crate::fsops::err_kind(&e)),
    };
    if Stdfs::mkdir_p(&scratch).is_ok() && Stdfs::set_cwd(&scratch).is_ok() && Stdfs::remove_all(&scratch).is_ok() {
        for a in absolute.iter() {
            println!("RMCWD\tabs {}\t{}\t{}", a, show(Stdfs::abs(a)), show(mem.abs(a)));
        }
        println!("RMCWD\texists /\tOk({})\tOk(true)", Stdfs::exists("/"));
        println!("RMCWD\tis_dir /\tOk({})\tOk(true)", Stdfs::is_dir("/"));
        let back = crate::verif_dir();
        println!("RMCWD\tset_cwd <verif>\t{}\tOk({})", show(Stdfs::set_cwd(&back)), back);
    }
}
