// C14 clean, C15 path helper laws, C16 relative, C19 core helpers
use std::{
    cell::RefCell,
    path::{Component, Path, PathBuf},
    rc::Rc,
};

use rivia::prelude::*;

use super::Prop;
use crate::{infra::*, refs::*};

pub fn props() -> Vec<Prop> {
    vec![
        Prop {
            id: "C14",
            run: c14,
            tools: None,
            rule: "every string over {/,.,a,b} up to length 10 (quick) / 14 (thorough) is enumerated and sys::clean + PathExt::clean compared with a byte-level port of Go's path.Clean, plus idempotence/absoluteness/non-empty checks; a second exhaustive pass over whole components {/, .., ., ~, a, $v, b.c} up to 6 (quick) / 8 (thorough) of them - names that mean something to other layers are names like any other here; seeded random strings over a wide alphabet (multi-byte, spaces, backslash, ~, $, :) on top. distinct_nontrivial = distinct (set of clean rules the input triggers, output component count, output kind) classes among inputs that clean() changed, counted with a hash set.",
            assumptions: &["reference = port of the published Go algorithm, written without std::path", "inputs are UTF-8"],
            shards_quick: 8,
            shards_thorough: 16,
            budget_quick_s: 120,
            budget_thorough_s: 900,
            min_evals: 100_000,
            exhaustive_capable: true,
        },
        Prop {
            id: "C15",
            run: c15,
            tools: None,
            rule: "each law of the statement is an executable predicate over plain strings / std::path::Component sequences; one-argument helpers on every string up to length 5 (quick) / 8 (thorough) over {/,.,:,a,e-acute,euro}; two-argument helpers on every ordered pair of strings up to length 3 / 5 plus the constructed pairs (s+p, p+s) the inverse laws need; scheme-prefixed strings for trim_protocol (and look-alike prefixes that only match after a non-ASCII case fold); seeded random longer strings with 4-byte characters. distinct_nontrivial = distinct (law, input class, outcome class) triples where the helper did something other than return its input.",
            assumptions: &["laws on dir/base, first/last are phrased on std::path::Component sequences", "inputs are UTF-8"],
            shards_quick: 8,
            shards_thorough: 16,
            budget_quick_s: 120,
            budget_thorough_s: 900,
            min_evals: 50_000,
            exhaustive_capable: true,
        },
        Prop {
            id: "C16",
            run: c16,
            tools: None,
            rule: "all 121x121 ordered pairs of clean absolute paths with up to 4 components over 3 names (both tiers) plus seeded random pairs with up to 12 components over 6 names; each result checked against the navigation law (relative, (..)* normal*, clean(base/result)==path, number of .. == components of base below the common prefix). distinct_nontrivial = distinct (len(path), len(base), len(common prefix)) triples.",
            assumptions: &["paths are clean and absolute as the statement requires"],
            shards_quick: 4,
            shards_thorough: 16,
            budget_quick_s: 120,
            budget_thorough_s: 600,
            min_evals: 14_000,
            exhaustive_capable: true,
        },
        Prop {
            id: "C19",
            run: c19,
            tools: None,
            rule: "drop/slice/first/first_result/last_result/single/some/consume on every Vec<i32> of length 0..=8 with every index (pair) in -10..=10 (exhaustive) plus extreme indices, on Vec::into_iter, slice::iter, a filter adaptor and str::chars (size_hint over-estimates) and Path::components; StringExt and to_bool on every string up to length 4 (quick) / 6 (thorough) over a casing/multi-byte alphabet; Option::has; take_while_p with every threshold; defer on generated control-flow shapes (depth <= 3, <= 3 guards per frame, exit by fall-through / return / panic at every position) executed as real stack frames. distinct_nontrivial = distinct (helper, input class, outcome class) triples + distinct defer shapes.",
            assumptions: &["slice is only specified for left >= -len (statement)", "defer order inside one frame relies on Rust's reverse drop order of locals"],
            shards_quick: 4,
            shards_thorough: 8,
            budget_quick_s: 120,
            budget_thorough_s: 600,
            min_evals: 10_000,
            exhaustive_capable: true,
        },
    ]
}

fn ps(p: &Path) -> String {
    p.to_str().unwrap_or("<non-utf8>").to_string()
}

// =============================================================================================
// C14
// =============================================================================================
fn clean_rules(s: &str) -> u32 {
    // which of the documented rules the input exercises
    let mut bits = 0u32;
    if s.starts_with('/') {
        bits |= 1;
    }
    if s.contains("//") {
        bits |= 2;
    }
    let parts: Vec<&str> = s.split('/').collect();
    if parts.iter().any(|p| *p == ".") {
        bits |= 4;
    }
    let mut depth: i32 = 0;
    let mut lead = false;
    let mut inner = false;
    let mut under_root = false;
    for p in parts.iter().filter(|p| !p.is_empty() && **p != ".") {
        if *p == ".." {
            if depth > 0 {
                inner = true;
                depth -= 1;
            } else if s.starts_with('/') {
                under_root = true;
            } else {
                lead = true;
            }
        } else {
            depth += 1;
        }
    }
    if inner {
        bits |= 8;
    }
    if under_root {
        bits |= 16;
    }
    if lead {
        bits |= 32;
    }
    if s.len() > 1 && s.ends_with('/') {
        bits |= 64;
    }
    if s.is_empty() {
        bits |= 128;
    }
    bits
}
fn rules_str(bits: u32) -> String {
    let names = ["rooted", "repeated-sep", "dot", "inner-dotdot", "root-dotdot", "leading-dotdot", "trailing-sep", "empty"];
    let v: Vec<&str> = names.iter().enumerate().filter(|(i, _)| bits & (1 << i) != 0).map(|(_, n)| *n).collect();
    if v.is_empty() {
        "plain".into()
    } else {
        v.join("+")
    }
}

fn c14_one(s: &str, rep: &mut Report) {
    rep.eval();
    let bits = clean_rules(s);
    let expected = go_clean(s);
    let got = catch(|| (sys::clean(s), Path::new(s).clean()));
    let wit = |got: &str| J::obj(vec![("input", J::s(s)), ("expected_go_clean", J::s(&expected)), ("got", J::s(got))]);
    match got {
        Err(msg) => rep.violation(&format!("clean:panic({})", rules_str(bits)), wit(&format!("panic: {}", msg))),
        Ok((a, b)) => {
            let a_s = ps(&a);
            if a_s != expected {
                rep.violation(&format!("clean:mismatch({})", rules_str(bits)), wit(&a_s));
            } else if ps(&b) != a_s {
                rep.violation("clean:ext-vs-fn", wit(&ps(&b)));
            } else {
                if a_s.is_empty() {
                    rep.violation("clean:empty-result", wit(&a_s));
                }
                if s.starts_with('/') != a_s.starts_with('/') {
                    rep.violation("clean:absoluteness", wit(&a_s));
                }
                let again = ps(&sys::clean(&a));
                if again != a_s {
                    rep.violation(&format!("clean:not-idempotent({})", rules_str(bits)), wit(&again));
                }
            }
            if a_s != s {
                let ncomp = a_s.split('/').filter(|x| !x.is_empty()).count().min(15) as u64;
                rep.key(((bits as u64) << 8) | (ncomp << 2) | (if a_s == "." { 1 } else { 0 }) | (if a_s == "/" { 2 } else { 0 }));
                rep.count("inputs_changed_by_clean", 1);
            }
            if rep.want_sample() && bits & 8 != 0 && bits & 2 != 0 {
                rep.sample(J::obj(vec![("input", J::s(s)), ("clean", J::s(&a_s)), ("rules", J::s(rules_str(bits)))]));
            }
        },
    }
}

fn c14(ctx: &Ctx, rep: &mut Report) {
    let max = if ctx.thorough { 14 } else { 10 };
    for_all_strings(&["/", ".", "a", "b"], max, |i, s| {
        if ctx.mine(i) {
            c14_one(s, rep);
        }
    });
    rep.count("exhaustive_max_len", max as u64);
    // a second exhaustive pass over whole components, among them names that mean something to OTHER layers (the home
    // shortcut, a variable reference, a name with an extension): to clean() they are names like any other
    let cmax = if ctx.thorough { 8 } else { 6 };
    for_all_strings(&["/", "..", ".", "~", "a", "$v", "b.c"], cmax, |i, s| {
        if ctx.mine(i) {
            c14_one(s, rep);
            rep.count("component_level_inputs", 1);
        }
    });
    // random over a wide alphabet
    let toks = ["/", "/", ".", "..", "a", "b", "é", "€", "😀", " ", "\\", "b.c", "...", ".a", "a.", "//", "/./", "/../", "~", "$", ":", "~/..", "file:"];
    let mut rng = ctx.rng("c14-random");
    let n = if ctx.thorough { 8_000_000 } else { 200_000 } / ctx.shards;
    let mut s = String::new();
    for _ in 0..n {
        s.clear();
        let k = rng.below(14);
        for _ in 0..k {
            s.push_str(*rng.pick(&toks[..]));
        }
        c14_one(&s, rep);
        rep.count("random_inputs", 1);
    }
}

// =============================================================================================
// C16
// =============================================================================================
fn c16_one(p: &[&str], b: &[&str], rep: &mut Report) {
    rep.eval();
    let mk = |v: &[&str]| if v.is_empty() { "/".to_string() } else { v.iter().map(|x| format!("/{}", x)).collect::<String>() };
    let (ps_, bs) = (mk(p), mk(b));
    let common = p.iter().zip(b.iter()).take_while(|(x, y)| x == y).count();
    let class = if p == b {
        "equal"
    } else if common == b.len() {
        "path-under-base"
    } else if common == p.len() {
        "base-under-path"
    } else {
        "diverge"
    };
    rep.key(((p.len() as u64) << 16) | ((b.len() as u64) << 8) | common as u64);
    let wit = |got: &str, law: &str| J::obj(vec![("path", J::s(&ps_)), ("base", J::s(&bs)), ("result", J::s(got)), ("law", J::s(law))]);
    let r = catch(|| (sys::relative(&ps_, &bs), Path::new(&ps_).relative(&bs)));
    let (r1, r2) = match r {
        Err(m) => {
            rep.violation(&format!("relative:panic({})", class), wit(&m, "no panic"));
            return;
        },
        Ok(x) => x,
    };
    let r1 = match r1 {
        Ok(x) => x,
        Err(e) => {
            rep.violation(&format!("relative:err({})", class), wit(&e.to_string(), "Ok expected"));
            return;
        },
    };
    let rs = ps(&r1);
    if r2.map(|x| ps(&x)).unwrap_or_default() != rs {
        rep.violation("relative:ext-vs-fn", wit(&rs, "PathExt::relative == sys::relative"));
    }
    if rep.want_sample() && class == "diverge" && p.len() > 2 {
        rep.sample(J::obj(vec![("path", J::s(&ps_)), ("base", J::s(&bs)), ("relative", J::s(&rs))]));
    }
    if p == b {
        // joining the result onto b still yields p
        let joined = PathBuf::from(&bs).join(&r1);
        if go_clean(&ps(&joined)) != ps_ {
            rep.violation("relative:equal-join", wit(&rs, "clean(b.join(r)) == p"));
        }
        return;
    }
    if rs.starts_with('/') {
        rep.violation(&format!("relative:not-relative({})", class), wit(&rs, "result is relative"));
        return;
    }
    let parts: Vec<&str> = rs.split('/').filter(|x| !x.is_empty()).collect();
    let ndd = parts.iter().take_while(|x| **x == "..").count();
    if parts[ndd..].iter().any(|x| *x == ".." || *x == ".") {
        rep.violation(&format!("relative:shape({})", class), wit(&rs, "(..)* normal*"));
    }
    if ndd != b.len() - common {
        rep.violation(&format!("relative:dotdot-count({})", class), wit(&rs, "number of .. == |b| - |common|"));
    }
    if go_clean(&format!("{}/{}", bs, rs)) != ps_ {
        rep.violation(&format!("relative:navigation({})", class), wit(&rs, "clean(b + / + r) == p"));
    }
}

fn c16(ctx: &Ctx, rep: &mut Report) {
    let names = ["a", "b", "c"];
    let mut paths: Vec<Vec<&str>> = vec![vec![]];
    let mut frontier: Vec<Vec<&str>> = vec![vec![]];
    for _ in 0..4 {
        let mut next = vec![];
        for f in &frontier {
            for n in names {
                let mut x = f.clone();
                x.push(n);
                next.push(x);
            }
        }
        paths.extend(next.iter().cloned());
        frontier = next;
    }
    let mut i = 0u64;
    for p in &paths {
        for b in &paths {
            if ctx.mine(i) {
                c16_one(p, b, rep);
            }
            i += 1;
        }
    }
    rep.count("exhaustive_pairs", i / ctx.shards as u64);
    // the same exhaustively (depth 3) over names that share leading bytes
    let names_mb = ["é", "è", "ab", "a"];
    let mut paths2: Vec<Vec<&str>> = vec![vec![]];
    let mut frontier: Vec<Vec<&str>> = vec![vec![]];
    for _ in 0..3 {
        let mut next = vec![];
        for f in &frontier {
            for n in names_mb {
                let mut x = f.clone();
                x.push(n);
                next.push(x);
            }
        }
        paths2.extend(next.iter().cloned());
        frontier = next;
    }
    for p in &paths2 {
        for b in &paths2 {
            if ctx.mine(i) {
                c16_one(p, b, rep);
            }
            i += 1;
        }
    }
    // (é / è / ê differ only in the LAST byte of their encoding, а / б likewise: a comparison done on bytes or on a
    // byte prefix that is then used as a string index lands inside a character there; "ab" / "abc" are string prefixes)
    let names6 = ["a", "b", "c", "dd", "é", "x y", "è", "ê", "а", "б", "ab", "abc", "日本", "日月"];
    let mut rng = ctx.rng("c16");
    let n = if ctx.thorough { 100_000_000 } else { 200_000 } / ctx.shards;
    for _ in 0..n {
        let lp = rng.below(13);
        let lb = rng.below(13);
        let share = rng.below(lp.min(lb) + 1);
        let mut p: Vec<&str> = (0..lp).map(|_| *rng.pick(&names6)).collect();
        let b: Vec<&str> = (0..lb).map(|_| *rng.pick(&names6)).collect();
        for k in 0..share {
            p[k] = b[k];
        }
        c16_one(&p, &b, rep);
    }
}

// =============================================================================================
// C15
// =============================================================================================
fn str_class(s: &str) -> &'static str {
    if s.is_empty() {
        "empty"
    } else if !s.is_ascii() {
        "multibyte"
    } else {
        "ascii"
    }
}
fn std_comps(s: &str) -> Vec<String> {
    Path::new(s)
        .components()
        .map(|c| match c {
            Component::RootDir => "/".to_string(),
            Component::CurDir => ".".to_string(),
            Component::ParentDir => "..".to_string(),
            Component::Normal(x) => x.to_str().unwrap().to_string(),
            Component::Prefix(_) => "?".to_string(),
        })
        .collect()
}

macro_rules! guard {
    ($rep:expr, $sig:expr, $wit:expr, $body:expr) => {
        match catch(|| $body) {
            Ok(x) => Some(x),
            Err(m) => {
                $rep.violation(&format!("{}:no-panic→panic", $sig), J::obj(vec![("input", $wit), ("panic", J::s(&m))]));
                None
            },
        }
    };
}

fn c15_single(s: &str, rep: &mut Report) {
    let p = Path::new(s);
    let cls = str_class(s);
    let w = || J::s(s);
    let comps = std_comps(s);
    // the text after the last component ("/", "/.", "//" ...) that ext() ignores
    let trailing = match comps.last() {
        Some(b) => !s.ends_with(b.as_str()),
        None => false,
    };

    // trim_ext / ext / name / base
    rep.eval();
    if let Some((e, t, n, b)) = guard!(rep, format!("law:ext-family({})", cls), w(), (sys::ext(p), sys::trim_ext(p), sys::name(p), sys::base(p))) {
        let tcls = if trailing { "text-after-last-component" } else { cls };
        match (&e, &t) {
            (Ok(e), Ok(t)) => {
                rep.key_str(&format!("ext:ok:{}:{}", tcls, comps.len().min(3)));
                let back = format!("{}.{}", ps(t), e);
                if back != s {
                    rep.violation(
                        &format!("law:trim_ext+ext({}):roundtrip→differs", tcls),
                        J::obj(vec![("input", w()), ("trim_ext", J::s(ps(t))), ("ext", J::s(e)), ("rebuilt", J::s(&back))]),
                    );
                }
                match (&n, &b) {
                    (Ok(n), Ok(b)) => {
                        let exp = b.strip_suffix(&format!(".{}", e)).unwrap_or(b).to_string();
                        if *n != exp {
                            rep.violation(
                                &format!("law:name({}):base-minus-ext→differs", tcls),
                                J::obj(vec![("input", w()), ("name", J::s(n)), ("base", J::s(b)), ("ext", J::s(e))]),
                            );
                        }
                    },
                    _ => rep.violation(&format!("law:name({}):ok→err", tcls), J::obj(vec![("input", w())])),
                }
            },
            (Err(_), Ok(t)) => {
                if ps(t) != s {
                    rep.violation(&format!("law:trim_ext-noext({}):identity→differs", cls), J::obj(vec![("input", w()), ("trim_ext", J::s(ps(t)))]));
                }
                if let (Ok(n), Ok(b)) = (&n, &b) {
                    if n != b {
                        rep.violation(&format!("law:name-noext({}):base→differs", cls), J::obj(vec![("input", w()), ("name", J::s(n)), ("base", J::s(b))]));
                    }
                }
            },
            (_, Err(e2)) => rep.violation(&format!("law:trim_ext({}):ok→err", cls), J::obj(vec![("input", w()), ("err", J::s(e2.to_string()))])),
        }
    }

    // dir/base
    rep.eval();
    if let Some((d, b, l)) = guard!(rep, format!("law:dir-base({})", cls), w(), (sys::dir(p), sys::base(p), sys::last(p))) {
        match p.parent() {
            Some(_) => match (&d, &b) {
                (Ok(d), Ok(b)) => {
                    let mut exp = std_comps(&ps(d));
                    exp.push(b.clone());
                    if exp != comps {
                        rep.violation(
                            &format!("law:dir+base({}):one-component-split→differs", cls),
                            J::obj(vec![("input", w()), ("dir", J::s(ps(d))), ("base", J::s(b))]),
                        );
                    }
                    rep.key_str(&format!("dirbase:{}:{}", cls, comps.len().min(4)));
                },
                _ => rep.violation(&format!("law:dir+base({}):ok→err", cls), J::obj(vec![("input", w())])),
            },
            None => {
                if d.is_ok() {
                    rep.violation(&format!("law:dir-noparent({}):err→ok", cls), J::obj(vec![("input", w())]));
                }
            },
        }
        if b.as_ref().ok() != l.as_ref().ok() {
            rep.violation("law:last==base", J::obj(vec![("input", w())]));
        }
        match comps.last() {
            Some(x) => {
                if b.as_ref().ok() != Some(x) {
                    rep.violation(&format!("law:base({}):last-component→differs", cls), J::obj(vec![("input", w()), ("base", J::s(format!("{:?}", b.as_ref().ok())))]));
                }
            },
            None => {
                if b.is_ok() {
                    rep.violation("law:base(empty):err→ok", J::obj(vec![("input", w())]));
                }
            },
        }
    }

    // first/trim_first, last/trim_last
    rep.eval();
    if let Some((f, tf, tl)) = guard!(rep, format!("law:first-last({})", cls), w(), (sys::first(p), sys::trim_first(p), sys::trim_last(p))) {
        if comps.is_empty() {
            if f.is_ok() || !ps(&tf).is_empty() || !ps(&tl).is_empty() {
                rep.violation("law:first-last(empty)", J::obj(vec![("input", w())]));
            }
        } else {
            let mut a = vec![f.as_ref().map(|x| x.clone()).unwrap_or_else(|_| "<err>".into())];
            a.extend(std_comps(&ps(&tf)));
            if a != comps {
                rep.violation(
                    &format!("law:first+trim_first({}):one-component-split→differs", cls),
                    J::obj(vec![("input", w()), ("first", J::s(&a[0])), ("trim_first", J::s(ps(&tf)))]),
                );
            }
            let mut z = std_comps(&ps(&tl));
            z.push(comps.last().unwrap().clone());
            if z != comps {
                rep.violation(&format!("law:trim_last+last({}):one-component-split→differs", cls), J::obj(vec![("input", w()), ("trim_last", J::s(ps(&tl)))]));
            }
            rep.key_str(&format!("firstlast:{}:{}:{}", cls, comps.len().min(4), s.starts_with('/')));
        }
    }

    // trim_protocol on s and on scheme-prefixed variants
    // (the last six are NOT schemes: characters whose upper- or lower-case mapping lands on an ASCII letter of a scheme
    // name - long s, dotless i, the fi ligature, Kelvin sign, I with dot above - only compare equal after a case fold
    // that is wider than ASCII)
    for pre in ["", "file://", "FILE://", "ftp://", "http://", "HttpS://", "https://", "file:/", "xfile://", "file://file://", "ssh://", "http\u{17f}://", "f\u{131}le://", "\u{fb01}le://", "HTTP\u{17f}://", "F\u{130}LE://", "\u{212a}ftp://", "file:ftp://", "http:http://", "File:HTTPS://", "ftp:http:https://", "http:://", "file:file://x/ftp://"] {
        rep.eval();
        let t = format!("{}{}", pre, s);
        let exp = ref_trim_protocol(&t);
        if let Some(got) = guard!(rep, format!("law:trim_protocol({})", cls), J::s(&t), sys::trim_protocol(&t)) {
            if ps(&got) != exp {
                rep.violation(
                    &format!("law:trim_protocol(prefix={:?},{}):one-scheme-removed→differs", pre, cls),
                    J::obj(vec![("input", J::s(&t)), ("expected", J::s(&exp)), ("got", J::s(ps(&got)))]),
                );
            }
            if exp != t {
                rep.key_str(&format!("proto:{}:{}", pre, cls));
            }
        }
    }

    // parse_paths
    rep.eval();
    if let Some(got) = guard!(rep, format!("law:parse_paths({})", cls), w(), sys::parse_paths(s)) {
        let exp: Vec<String> = s.split(':').filter(|x| !x.is_empty()).map(|x| x.to_string()).collect();
        match got {
            Ok(v) => {
                let v: Vec<String> = v.iter().map(|x| ps(x)).collect();
                if v != exp {
                    rep.violation(&format!("law:parse_paths({}):split-on-colon→differs", cls), J::obj(vec![("input", w()), ("got", J::strs(&v))]));
                }
                if exp.len() > 1 {
                    rep.key_str(&format!("parse:{}:{}", cls, exp.len().min(4)));
                }
            },
            Err(_) => rep.violation("law:parse_paths:ok→err", J::obj(vec![("input", w())])),
        }
    }
    if rep.want_sample() && cls == "multibyte" && s.contains('.') && s.contains('/') {
        if let Ok(j) = catch(|| {
            J::obj(vec![
                ("input", w()),
                ("ext", J::s(format!("{:?}", sys::ext(p).ok()))),
                ("trim_ext", J::s(format!("{:?}", sys::trim_ext(p).ok()))),
                ("dir", J::s(format!("{:?}", sys::dir(p).ok()))),
                ("base", J::s(format!("{:?}", sys::base(p).ok()))),
            ])
        }) {
            rep.sample(j);
        }
    }
}

fn c15_pair(a: &str, b: &str, rep: &mut Report) {
    let w = || J::obj(vec![("a", J::s(a)), ("b", J::s(b))]);
    let (ca, cb) = (str_class(a), str_class(b));
    // mash(d=a, p=b)
    rep.eval();
    if let Some(got) = guard!(rep, format!("law:mash(d={},p={})", ca, cb), w(), (sys::mash(a, b), Path::new(a).mash(b))) {
        let g = ps(&got.0);
        let stripped = b.trim_start_matches('/');
        let exp = if a.is_empty() { std_comps(stripped) } else { std_comps(&format!("{}/{}", a, stripped)) };
        let lead = b.len() - stripped.len();
        let pcls = match lead {
            0 => "no-leading-sep",
            1 => "one-leading-sep",
            _ => "many-leading-sep",
        };
        if std_comps(&g) != exp {
            rep.violation(
                &format!("law:mash(d={},p={},{}):components(d)+components(p)→differs", ca, cb, pcls),
                J::obj(vec![("dir", J::s(a)), ("path", J::s(b)), ("got", J::s(&g)), ("expected_components", J::strs(&exp))]),
            );
        } else if g.len() > 1 && g.ends_with('/') {
            rep.violation("law:mash:no-trailing-sep→has", J::obj(vec![("dir", J::s(a)), ("path", J::s(b)), ("got", J::s(&g))]));
        }
        if ps(&got.1) != g {
            rep.violation("law:mash:ext-vs-fn", w());
        }
        rep.key_str(&format!("mash:{}:{}:{}", ca, cb, pcls));
    }
    // trim_prefix / trim_suffix: inverse and identity laws
    rep.eval();
    let ab = format!("{}{}", a, b);
    if let Some((tp, ts, tp2, ts2)) =
        guard!(rep, format!("law:trim_prefix/suffix(arg={})", cb), w(), (sys::trim_prefix(&ab, a), sys::trim_suffix(&ab, b), sys::trim_prefix(a, b), sys::trim_suffix(a, b)))
    {
        if ps(&tp) != b {
            rep.violation(
                &format!("law:trim_prefix(prefix={}):inverse→differs", ca),
                J::obj(vec![("path", J::s(&ab)), ("prefix", J::s(a)), ("got", J::s(ps(&tp))), ("expected", J::s(b))]),
            );
        }
        if ps(&ts) != a {
            rep.violation(
                &format!("law:trim_suffix(suffix={}):inverse→differs", cb),
                J::obj(vec![("path", J::s(&ab)), ("suffix", J::s(b)), ("got", J::s(ps(&ts))), ("expected", J::s(a))]),
            );
        }
        let exp_p = a.strip_prefix(b).unwrap_or(a);
        if ps(&tp2) != exp_p {
            rep.violation(
                &format!("law:trim_prefix(prefix={}):{}→differs", cb, if a.starts_with(b) { "strip" } else { "identity" }),
                J::obj(vec![("path", J::s(a)), ("prefix", J::s(b)), ("got", J::s(ps(&tp2)))]),
            );
        }
        let exp_s = a.strip_suffix(b).unwrap_or(a);
        if ps(&ts2) != exp_s {
            rep.violation(
                &format!("law:trim_suffix(suffix={}):{}→differs", cb, if a.ends_with(b) { "strip" } else { "identity" }),
                J::obj(vec![("path", J::s(a)), ("suffix", J::s(b)), ("got", J::s(ps(&ts2)))]),
            );
        }
        rep.key_str(&format!("trim:{}:{}:{}:{}", ca, cb, a.starts_with(b), a.ends_with(b)));
    }
    // has / has_prefix / has_suffix / concat
    rep.eval();
    if let Some((h, hp, hs, c)) = guard!(rep, format!("law:has(arg={})", cb), w(), (sys::has(a, b), sys::has_prefix(a, b), sys::has_suffix(a, b), sys::concat(a, b))) {
        if h != a.contains(b) || hp != a.starts_with(b) || hs != a.ends_with(b) {
            rep.violation(&format!("law:has-family({}):string-containment→differs", cb), w());
        }
        match c {
            Ok(c) => {
                if ps(&c) != ab {
                    rep.violation("law:concat:string-concatenation→differs", J::obj(vec![("a", J::s(a)), ("b", J::s(b)), ("got", J::s(ps(&c)))]));
                }
            },
            Err(_) => rep.violation("law:concat:ok→err", w()),
        }
        let p = Path::new(a);
        if p.has(b) != h || p.has_prefix(b) != hp || p.has_suffix(b) != hs {
            rep.violation("law:has:ext-vs-fn", w());
        }
        rep.key_str(&format!("has:{}:{}:{}:{}:{}", ca, cb, h, hp, hs));
    }
    if rep.want_sample() && ca == "multibyte" && b.starts_with('/') && !a.is_empty() {
        if let Ok(j) = catch(|| J::obj(vec![("dir", J::s(a)), ("path", J::s(b)), ("mash", J::s(ps(&sys::mash(a, b)))), ("trim_prefix(a+b,a)", J::s(ps(&sys::trim_prefix(&ab, a))))])) {
            rep.sample(j);
        }
    }
}

fn c15(ctx: &Ctx, rep: &mut Report) {
    let alpha = ["/", ".", ":", "a", "é", "€"];
    let max1 = if ctx.thorough { 8 } else { 5 };
    for_all_strings(&alpha, max1, |i, s| {
        if ctx.mine(i) {
            c15_single(s, rep);
        }
    });
    let max2 = if ctx.thorough { 5 } else { 3 };
    let mut all: Vec<String> = vec![];
    for_all_strings(&alpha, max2, |_, s| all.push(s.to_string()));
    let mut i = 0u64;
    for a in &all {
        for b in &all {
            if ctx.mine(i) {
                c15_pair(a, b, rep);
            }
            i += 1;
        }
    }
    rep.count("exhaustive_single_max_len", max1 as u64);
    rep.count("exhaustive_pair_max_len", max2 as u64);
    // random longer with 4-byte characters
    let toks = ["/", ".", ":", "a", "b", "é", "€", "😀", " ", "..", "//", ".tar", "x.y", "\\"];
    let mut rng = ctx.rng("c15");
    let n = if ctx.thorough { 4_000_000 } else { 40_000 } / ctx.shards;
    for _ in 0..n {
        let mut a = String::new();
        let mut b = String::new();
        for _ in 0..rng.below(10) {
            a.push_str(*rng.pick(&toks[..]));
        }
        for _ in 0..rng.below(6) {
            b.push_str(*rng.pick(&toks[..]));
        }
        c15_single(&a, rep);
        c15_pair(&a, &b, rep);
    }
}

// =============================================================================================
// C19
// =============================================================================================
fn ref_drop(v: &[i32], n: isize) -> Vec<i32> {
    let len = v.len();
    if n > 0 {
        v[(n as usize).min(len)..].to_vec()
    } else if n < 0 {
        v[..len - n.unsigned_abs().min(len)].to_vec()
    } else {
        v.to_vec()
    }
}
/// None where the statement does not define the result (left below -len)
fn ref_slice(v: &[i32], l: isize, r: isize) -> Option<Vec<i32>> {
    let len = v.len() as isize;
    if l < -len {
        return None;
    }
    let li = if l < 0 { len + l } else { l };
    let ri = if r < 0 { len + r } else { r.min(len - 1) };
    if ri < 0 || li >= len || li > ri {
        return Some(vec![]);
    }
    Some(v[li as usize..=ri as usize].to_vec())
}
fn idx_class(i: isize, len: usize) -> &'static str {
    let len = len as isize;
    if i == isize::MIN {
        "isize::MIN"
    } else if i == isize::MAX {
        "isize::MAX"
    } else if i == 0 {
        "0"
    } else if i > 0 && i < len {
        "pos-in"
    } else if i > 0 {
        "pos-out"
    } else if -i <= len {
        "neg-in"
    } else {
        "neg-out"
    }
}

fn c19_seq(len: usize, rep: &mut Report, idx: &[isize]) {
    let v: Vec<i32> = (0..len as i32).collect();
    let lc = match len {
        0 => "len0",
        1 => "len1",
        2 => "len2",
        _ => "len3+",
    };
    for &n in idx {
        rep.eval();
        let exp = ref_drop(&v, n);
        let sig = format!("law:drop({},n={})", lc, idx_class(n, len));
        match catch(|| (v.clone().into_iter().drop(n).collect::<Vec<i32>>(), v.iter().drop(n).cloned().collect::<Vec<i32>>())) {
            Err(m) => rep.violation(&format!("{}:no-panic→panic", sig), J::obj(vec![("len", J::Int(len as i64)), ("n", J::Int(n as i64)), ("panic", J::s(m))])),
            Ok((a, b)) => {
                if a != exp || b != exp {
                    rep.violation(
                        &format!("{}:plain-definition→differs", sig),
                        J::obj(vec![("len", J::Int(len as i64)), ("n", J::Int(n as i64)), ("got", J::s(format!("{:?}", a))), ("expected", J::s(format!("{:?}", exp)))]),
                    );
                }
                if exp.len() != len {
                    rep.key_str(&sig);
                }
            },
        }
    }
    for &l in idx {
        for &r in idx {
            rep.eval();
            let exp = ref_slice(&v, l, r);
            let sig = format!("law:slice({},l={},r={})", lc, idx_class(l, len), idx_class(r, len));
            match catch(|| (v.clone().into_iter().slice(l, r).collect::<Vec<i32>>(), v.iter().slice(l, r).cloned().collect::<Vec<i32>>())) {
                Err(m) => rep.violation(
                    &format!("{}:no-panic→panic", sig),
                    J::obj(vec![("len", J::Int(len as i64)), ("left", J::Int(l as i64)), ("right", J::Int(r as i64)), ("panic", J::s(m))]),
                ),
                Ok((a, b)) => {
                    if let Some(exp) = exp {
                        if a != exp || b != exp {
                            rep.violation(
                                &format!("{}:inclusive-range→differs", sig),
                                J::obj(vec![
                                    ("len", J::Int(len as i64)),
                                    ("left", J::Int(l as i64)),
                                    ("right", J::Int(r as i64)),
                                    ("got", J::s(format!("{:?}", a))),
                                    ("expected", J::s(format!("{:?}", exp))),
                                ]),
                            );
                        }
                        rep.key_str(&sig);
                        if rep.want_sample() && len == 5 && l == 1 && r == -2 {
                            rep.sample(J::obj(vec![("seq", J::s(format!("{:?}", v))), ("slice", J::s("(1,-2)")), ("got", J::s(format!("{:?}", a)))]));
                        }
                    } else {
                        rep.count("slice_left_below_minus_len_unspecified", 1);
                    }
                },
            }
        }
    }
    // iterators whose size_hint over-estimates the length (filter adaptor): every second element is a filler
    let padded: Vec<i32> = v.iter().flat_map(|x| vec![-1, *x]).chain(vec![-1]).collect();
    for &l in idx {
        for &r in idx {
            rep.eval();
            let exp = ref_slice(&v, l, r);
            let sig = format!("law:slice-on-filter({},l={},r={})", lc, idx_class(l, len), idx_class(r, len));
            match catch(|| padded.clone().into_iter().filter(|x| *x >= 0).slice(l, r).collect::<Vec<i32>>()) {
                Err(m) => rep.violation(&format!("{}:no-panic→panic", sig), J::obj(vec![("len", J::Int(len as i64)), ("left", J::Int(l as i64)), ("right", J::Int(r as i64)), ("panic", J::s(m))])),
                Ok(a) => {
                    if let Some(exp) = exp {
                        if a != exp {
                            rep.violation(
                                &format!("{}:inclusive-range→differs", sig),
                                J::obj(vec![("iterator", J::s("vec.into_iter().filter(..) with an over-estimating size_hint")), ("len", J::Int(len as i64)), ("left", J::Int(l as i64)), ("right", J::Int(r as i64)), ("got", J::s(format!("{:?}", a))), ("expected", J::s(format!("{:?}", exp)))]),
                            );
                        }
                        rep.key_str(&sig);
                    }
                },
            }
        }
        rep.eval();
        let exp = ref_drop(&v, l);
        match catch(|| padded.clone().into_iter().filter(|x| *x >= 0).drop(l).collect::<Vec<i32>>()) {
            Err(m) => rep.violation(&format!("law:drop-on-filter({},n={}):no-panic→panic", lc, idx_class(l, len)), J::s(m)),
            Ok(a) => {
                if a != exp {
                    rep.violation(&format!("law:drop-on-filter({},n={}):plain-definition→differs", lc, idx_class(l, len)), J::obj(vec![("len", J::Int(len as i64)), ("n", J::Int(l as i64)), ("got", J::s(format!("{:?}", a)))]));
                }
            },
        }
    }
    // chars() of a multi-byte string: the upper size hint counts bytes
    {
        let s: String = (0..len).map(|i| ['é', '€', 'a', '😀'][i % 4]).collect();
        let cv: Vec<char> = s.chars().collect();
        for &l in idx {
            for &r in idx {
                rep.eval();
                let exp = ref_slice(&(0..len as i32).collect::<Vec<i32>>(), l, r).map(|ix| ix.iter().map(|i| cv[*i as usize]).collect::<String>());
                match catch(|| s.chars().slice(l, r).collect::<String>()) {
                    Err(m) => rep.violation(&format!("law:slice-on-chars({}):no-panic→panic", lc), J::obj(vec![("string", J::s(&s)), ("left", J::Int(l as i64)), ("right", J::Int(r as i64)), ("panic", J::s(m))])),
                    Ok(a) => {
                        if let Some(exp) = exp {
                            if a != exp {
                                rep.violation(&format!("law:slice-on-chars({}):inclusive-range→differs", lc), J::obj(vec![("string", J::s(&s)), ("left", J::Int(l as i64)), ("right", J::Int(r as i64)), ("got", J::s(&a)), ("expected", J::s(&exp))]));
                            }
                        }
                    },
                }
            }
        }
    }
    // first / first_result / last_result / single / some / consume
    rep.eval();
    let sig = format!("law:list-helpers({})", lc);
    match catch(|| {
        (
            v.clone().into_iter().first(),
            v.clone().into_iter().first_result().ok(),
            v.clone().into_iter().last_result().ok(),
            v.clone().into_iter().single().ok(),
            v.clone().into_iter().some(),
            v.clone().into_iter().consume().next(),
        )
    }) {
        Err(m) => rep.violation(&format!("{}:no-panic→panic", sig), J::obj(vec![("len", J::Int(len as i64)), ("panic", J::s(m))])),
        Ok((f, fr, lr, si, so, co)) => {
            let ok = f == v.first().cloned()
                && fr == v.first().cloned()
                && lr == v.last().cloned()
                && si == (if len == 1 { Some(v[0]) } else { None })
                && so == (len > 0)
                && co.is_none();
            if !ok {
                rep.violation(
                    &format!("{}:list-semantics→differs", sig),
                    J::obj(vec![("len", J::Int(len as i64)), ("got", J::s(format!("{:?}", (f, fr, lr, si, so, co))))]),
                );
            }
            rep.key_str(&sig);
        },
    }
    // error kinds of the failing cases
    if len == 0 {
        let e1 = v.clone().into_iter().first_result().err().map(|e| e.to_string()).unwrap_or_default();
        let e2 = v.clone().into_iter().single().err().map(|e| e.to_string()).unwrap_or_default();
        let e3 = v.clone().into_iter().last_result().err().map(|e| e.to_string()).unwrap_or_default();
        let nf = IterError::item_not_found().to_string();
        if e1 != nf || e2 != nf || e3 != nf {
            rep.violation("law:list-helpers(len0):item-not-found→other", J::s(format!("{} / {} / {}", e1, e2, e3)));
        }
    }
    if len > 1 {
        let e2 = v.clone().into_iter().single().err().map(|e| e.to_string()).unwrap_or_default();
        if e2 != IterError::multiple_items_found().to_string() {
            rep.violation("law:single(len>1):multiple-items-found→other", J::s(e2));
        }
    }
    // take_while_p with every threshold
    for k in 0..=len as i32 + 1 {
        rep.eval();
        let r = catch(|| {
            let mut it = v.clone().into_iter().peekable();
            let taken: Vec<i32> = it.take_while_p(|x| *x < k).collect();
            let next = it.next();
            let rest = it.count();
            (taken, next, rest)
        });
        match r {
            Err(m) => rep.violation("law:take_while_p:no-panic→panic", J::s(m)),
            Ok((taken, next, rest)) => {
                let cut = (k.max(0) as usize).min(len);
                let ok = taken == v[..cut].to_vec() && next == v.get(cut).cloned() && rest == len.saturating_sub(cut + 1);
                if !ok {
                    rep.violation(
                        &format!("law:take_while_p({}):longest-prefix+unconsumed-next→differs", lc),
                        J::obj(vec![("len", J::Int(len as i64)), ("threshold", J::Int(k as i64)), ("taken", J::s(format!("{:?}", taken))), ("next", J::s(format!("{:?}", next)))]),
                    );
                }
                rep.key_str(&format!("twp:{}:{}", lc, if cut == 0 { "none" } else if cut == len { "all" } else { "some" }));
            },
        }
    }
}

fn c19_string(s: &str, rep: &mut Report) {
    rep.eval();
    let cls = str_class(s);
    let r = catch(|| (s.size(), s.to_string().size(), s.to_bool(), s.to_string().to_bool()));
    match r {
        Err(m) => rep.violation(&format!("law:string-ext({}):no-panic→panic", cls), J::obj(vec![("input", J::s(s)), ("panic", J::s(m))])),
        Ok((n1, n2, b1, b2)) => {
            let n = s.chars().count();
            if n1 != n || n2 != n {
                rep.violation(&format!("law:size({}):char-count→differs", cls), J::obj(vec![("input", J::s(s)), ("got", J::Int(n1 as i64))]));
            }
            let exp = !(s.is_empty() || s == "0" || s.eq_ignore_ascii_case("false"));
            if b1 != exp || b2 != exp {
                rep.violation(&format!("law:to_bool({}):definition→differs", cls), J::obj(vec![("input", J::s(s)), ("got", J::Bool(b1)), ("expected", J::Bool(exp))]));
            }
            rep.key_str(&format!("str:{}:{}:{}", cls, n.min(5), exp));
        },
    }
    // trim_suffix with every suffix of s, plus non-suffixes
    let mut sufs: Vec<String> = s.char_indices().map(|(i, _)| s[i..].to_string()).collect();
    sufs.push(String::new());
    sufs.push("a".into());
    sufs.push("é".into());
    sufs.push(format!("{}{}", s, s));
    for suf in sufs {
        rep.eval();
        match catch(|| (StringExt::trim_suffix(s, suf.clone()), StringExt::trim_suffix(&s.to_string(), suf.clone()))) {
            Err(m) => rep.violation(
                &format!("law:StringExt::trim_suffix({}):no-panic→panic", cls),
                J::obj(vec![("input", J::s(s)), ("suffix", J::s(&suf)), ("panic", J::s(m))]),
            ),
            Ok((a, b)) => {
                let exp = s.strip_suffix(suf.as_str()).unwrap_or(s);
                if a != exp || b != exp {
                    rep.violation(
                        &format!("law:StringExt::trim_suffix({}):one-occurrence→differs", cls),
                        J::obj(vec![("input", J::s(s)), ("suffix", J::s(&suf)), ("got", J::s(&a))]),
                    );
                }
                if exp != s {
                    rep.key_str(&format!("strsuf:{}:{}", cls, str_class(&suf)));
                }
            },
        }
    }
}

// ---- defer ---------------------------------------------------------------------------------
#[derive(Clone, Debug)]
enum Item {
    Defer(u32),
    Mark(u32),
    Child(Box<Scope>),
}
#[derive(Clone, Debug, PartialEq)]
enum Exit {
    Fall,
    ReturnAt(usize),
    PanicAt(usize),
}
#[derive(Clone, Debug)]
struct Scope {
    items: Vec<Item>,
    exit: Exit,
}
type Log = Rc<RefCell<Vec<String>>>;

fn mk_guard(log: &Log, id: u32, fired: &Rc<RefCell<Vec<u32>>>) -> impl Drop {
    let log = log.clone();
    let fired = fired.clone();
    rivia::core::defer(move || {
        log.borrow_mut().push(format!("d{}", id));
        fired.borrow_mut().push(id);
    })
}

// One scope == one real stack frame; guards live in locals so Rust's own drop order applies
fn run_scope(s: &Scope, log: &Log, fired: &Rc<RefCell<Vec<u32>>>) {
    let mut _g0 = None;
    let mut _g1 = None;
    let mut _g2 = None;
    let mut slot = 0;
    for (i, item) in s.items.iter().enumerate() {
        match s.exit {
            Exit::ReturnAt(k) if k == i => return,
            Exit::PanicAt(k) if k == i => panic!("scripted panic"),
            _ => {},
        }
        match item {
            Item::Defer(id) => {
                let g = mk_guard(log, *id, fired);
                match slot {
                    0 => _g0 = Some(g),
                    1 => _g1 = Some(g),
                    _ => _g2 = Some(g),
                }
                slot += 1;
            },
            Item::Mark(id) => log.borrow_mut().push(format!("m{}", id)),
            Item::Child(c) => run_scope(c, log, fired),
        }
    }
    match s.exit {
        Exit::ReturnAt(k) if k >= s.items.len() => return,
        Exit::PanicAt(k) if k >= s.items.len() => panic!("scripted panic"),
        _ => {},
    }
    log.borrow_mut().push("end".to_string());
}

// Expected log by interpretation; returns true when the scope unwinds
fn expect_scope(s: &Scope, out: &mut Vec<String>) -> bool {
    let mut live: Vec<u32> = vec![];
    let mut unwinding = false;
    let mut done = false;
    for (i, item) in s.items.iter().enumerate() {
        match s.exit {
            Exit::ReturnAt(k) if k == i => {
                done = true;
                break;
            },
            Exit::PanicAt(k) if k == i => {
                unwinding = true;
                done = true;
                break;
            },
            _ => {},
        }
        match item {
            Item::Defer(id) => live.push(*id),
            Item::Mark(id) => out.push(format!("m{}", id)),
            Item::Child(c) => {
                if expect_scope(c, out) {
                    unwinding = true;
                    done = true;
                    break;
                }
            },
        }
    }
    if !done {
        match s.exit {
            Exit::ReturnAt(_) => {},
            Exit::PanicAt(_) => unwinding = true,
            Exit::Fall => out.push("end".to_string()),
        }
    }
    for id in live.iter().rev() {
        out.push(format!("d{}", id));
    }
    unwinding
}

fn gen_scope(rng: &mut Rng, depth: usize, next_id: &mut u32) -> Scope {
    let n = rng.below(6);
    let mut items = vec![];
    let mut defers = 0;
    for _ in 0..n {
        match rng.below(if depth < 3 { 4 } else { 3 }) {
            0 | 1 if defers < 3 => {
                *next_id += 1;
                items.push(Item::Defer(*next_id));
                defers += 1;
            },
            3 => items.push(Item::Child(Box::new(gen_scope(rng, depth + 1, next_id)))),
            _ => {
                *next_id += 1;
                items.push(Item::Mark(*next_id));
            },
        }
    }
    let exit = match rng.below(4) {
        0 => Exit::ReturnAt(rng.below(items.len() + 1)),
        1 => Exit::PanicAt(rng.below(items.len() + 1)),
        _ => Exit::Fall,
    };
    Scope { items, exit }
}

fn shape_str(s: &Scope) -> String {
    let mut o = String::from("{");
    for (i, it) in s.items.iter().enumerate() {
        match s.exit {
            Exit::ReturnAt(k) if k == i => o.push_str("return;"),
            Exit::PanicAt(k) if k == i => o.push_str("panic;"),
            _ => {},
        }
        match it {
            Item::Defer(_) => o.push_str("defer;"),
            Item::Mark(_) => o.push_str("stmt;"),
            Item::Child(c) => o.push_str(&shape_str(c)),
        }
    }
    match s.exit {
        Exit::ReturnAt(k) if k >= s.items.len() => o.push_str("return;"),
        Exit::PanicAt(k) if k >= s.items.len() => o.push_str("panic;"),
        _ => {},
    }
    o.push('}');
    o
}

fn c19_defer_shape(s: &Scope, rep: &mut Report) {
    rep.eval();
    let log: Log = Rc::new(RefCell::new(vec![]));
    let fired = Rc::new(RefCell::new(vec![]));
    let r = catch(|| run_scope(s, &log, &fired));
    let mut exp = vec![];
    let unwound = expect_scope(s, &mut exp);
    let got = log.borrow().clone();
    let shape = shape_str(s);
    rep.key_str(&format!("defer:{}", shape));
    let exit_cls = if unwound { "unwind" } else if shape.contains("return;") { "return" } else { "fallthrough" };
    if r.is_err() != unwound {
        rep.violation("law:defer:harness-shape-mismatch", J::s(&shape));
        return;
    }
    if got != exp {
        let mut f = fired.borrow().clone();
        f.sort();
        let dup = f.windows(2).any(|w| w[0] == w[1]);
        let what = if dup {
            "ran-twice"
        } else if got.len() < exp.len() {
            "not-run"
        } else {
            "wrong-order"
        };
        rep.violation(
            &format!("law:defer({}):once-in-reverse-order→{}", exit_cls, what),
            J::obj(vec![("shape", J::s(&shape)), ("expected_log", J::strs(&exp)), ("got_log", J::strs(&got))]),
        );
    }
    if rep.want_sample() && unwound && shape.matches("defer;").count() >= 3 {
        rep.sample(J::obj(vec![("defer_shape", J::s(&shape)), ("log", J::strs(&got))]));
    }
}

// Fixed shapes through the defer! macro (shadowed `_defer` bindings all stay alive to the scope end)
fn macro_shapes(rep: &mut Report) {
    fn two(log: &Log, early: bool, boom: bool) {
        let l1 = log.clone();
        defer!(l1.borrow_mut().push("d1".into()));
        log.borrow_mut().push("m1".into());
        if early {
            return;
        }
        let l2 = log.clone();
        defer!(l2.borrow_mut().push("d2".into()));
        {
            let l3 = log.clone();
            defer!(l3.borrow_mut().push("d3".into()));
            log.borrow_mut().push("m2".into());
            if boom {
                panic!("scripted");
            }
        }
        log.borrow_mut().push("end".into());
    }
    for (early, boom, exp) in [
        (false, false, vec!["m1", "m2", "d3", "end", "d2", "d1"]),
        (true, false, vec!["m1", "d1"]),
        (false, true, vec!["m1", "m2", "d3", "d2", "d1"]),
    ] {
        rep.eval();
        let log: Log = Rc::new(RefCell::new(vec![]));
        let _ = catch(|| two(&log, early, boom));
        let got = log.borrow().clone();
        rep.key_str(&format!("defer-macro:{}:{}", early, boom));
        if got != exp {
            rep.violation(
                &format!("law:defer!-macro(early={},panic={}):once-in-reverse-order→differs", early, boom),
                J::obj(vec![("expected_log", J::strs(&exp)), ("got_log", J::strs(&got))]),
            );
        }
    }
}

fn c19(ctx: &Ctx, rep: &mut Report) {
    let mut idx: Vec<isize> = (-10..=10).collect();
    for len in 0..=8usize {
        if ctx.mine(len as u64) {
            c19_seq(len, rep, &idx);
        }
    }
    // extreme indices (no-panic clause; results per the plain definitions)
    idx = vec![isize::MIN, isize::MIN + 1, -1000, -1, 0, 1, 1000, isize::MAX - 1, isize::MAX];
    for len in [0usize, 1, 3, 8] {
        if ctx.mine(len as u64 + 1) {
            c19_seq(len, rep, &idx);
        }
    }
    // components() as the iterator (the way rivia itself uses drop/slice)
    if ctx.shard == 0 {
        for p in ["", "/", "a", "/a", "a/b", "/a/b/c", "../a", "./a/b"] {
            let comps = std_comps(p);
            for n in -4isize..=4 {
                rep.eval();
                let exp: Vec<String> = {
                    let len = comps.len();
                    if n > 0 {
                        comps[(n as usize).min(len)..].to_vec()
                    } else {
                        comps[..len - n.unsigned_abs().min(len)].to_vec()
                    }
                };
                match catch(|| Path::new(p).components().drop(n).map(|c| c.as_os_str().to_str().unwrap().to_string()).collect::<Vec<String>>()) {
                    Err(m) => rep.violation("law:drop(components):no-panic→panic", J::obj(vec![("path", J::s(p)), ("n", J::Int(n as i64)), ("panic", J::s(m))])),
                    Ok(got) => {
                        if got != exp {
                            rep.violation("law:drop(components):plain-definition→differs", J::obj(vec![("path", J::s(p)), ("n", J::Int(n as i64)), ("got", J::strs(&got))]));
                        }
                    },
                }
            }
        }
        // Option::has
        for (o, x, e) in [(Some(1), 1, true), (Some(1), 2, false), (None, 1, false), (Some(0), 0, true), (Some(i32::MIN), i32::MIN, true)] {
            rep.eval();
            if o.has(x) != e {
                rep.violation("law:Option::has:equality→differs", J::s(format!("{:?}.has({})", o, x)));
            }
            rep.key_str(&format!("has:{:?}:{}", o.is_some(), e));
        }
        for (o, x, e) in [(Some("a".to_string()), "a", true), (Some("a".to_string()), "é", false), (None, "", false), (Some(String::new()), "", true)] {
            rep.eval();
            if o.has(x) != e {
                rep.violation("law:Option::has(str):equality→differs", J::s(format!("{:?}.has({:?})", o, x)));
            }
        }
        macro_shapes(rep);
    }
    // strings
    let alpha = ["f", "a", "l", "s", "e", "F", "A", "L", "S", "E", "0", "1", "é", "€", " "];
    let max = if ctx.thorough { 6 } else { 4 };
    for_all_strings(&alpha, max, |i, s| {
        if ctx.mine(i) {
            c19_string(s, rep);
        }
    });
    for s in ["false", "FALSE", "False", "fAlSe", "0", "", "00", "false ", " false", "fals", "falsee", "true", "no", "ſalse", "FALſE", "😀", "0.0", "-0"] {
        c19_string(s, rep);
    }
    // defer shapes
    let mut rng = ctx.rng("c19-defer");
    let n = if ctx.thorough { 2_000_000 } else { 10_000 } / ctx.shards;
    for _ in 0..n {
        let mut id = 0;
        let s = gen_scope(&mut rng, 1, &mut id);
        c19_defer_shape(&s, rep);
    }
    // all single-frame shapes with up to 3 guards and every exit position
    if ctx.shard == 0 {
        for nd in 0..=3u32 {
            let items: Vec<Item> = (1..=nd).flat_map(|i| vec![Item::Defer(i), Item::Mark(10 + i)]).collect();
            let mut exits = vec![Exit::Fall];
            for k in 0..=items.len() {
                exits.push(Exit::ReturnAt(k));
                exits.push(Exit::PanicAt(k));
            }
            for e in exits {
                c19_defer_shape(&Scope { items: items.clone(), exit: e }, rep);
            }
        }
    }
}
