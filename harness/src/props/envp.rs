// C17 expand() and C18 XDG lookup: every configuration is one child process with an explicit environment
use std::{
    io::Write,
    path::{Path, PathBuf},
    process::{Command, Stdio},
};

use rivia::prelude::*;

use super::Prop;
use crate::{infra::*, refs::*};

pub fn props() -> Vec<Prop> {
    vec![
        Prop {
            id: "C17",
            run: c17,
            tools: None,
            rule: "one child process per environment (env_clear + explicit HOME, V1, V2 each in {unset, empty, x, x/y, /abs}: 125 environments; thorough uses 12 values each: 1728 environments) evaluating sys::expand, PathExt::expand and both backends' abs() on every template of up to 4 (quick) / 5 (thorough) tokens from {a, /, ~, $V1, ${V1}, $V2, $, ${}, $UNSET}; the parent compares each line with a string-level reference of the statement (PathBuf::push re-assembly as pinned by test_pathext_expand). distinct_nontrivial = distinct (token-kind multiset, environment class, outcome class) triples with at least one ~ or $.",
            assumptions: &[
                "variable names are delimited unambiguously in templates ($NAME followed by / $ or end, ${NAME} anywhere); undelimited / unclosed forms are not judged",
                "values are UTF-8",
            ],
            shards_quick: 8,
            shards_thorough: 16,
            budget_quick_s: 180,
            budget_thorough_s: 900,
            min_evals: 100_000,
            exhaustive_capable: true,
        },
        Prop {
            id: "C18",
            run: c18,
            tools: None,
            rule: "one child process per configuration: for each user::* function the full cross-product of the values {unset, empty, single, list, list with empty segments} of the variables it reads, pairwise-style random full assignments on top (quick ~500 children, thorough ~6000), x which candidate directories contain the file for vfs.config_dir on a Memfs built in the child and on a Stdfs sandbox; the parent compares every printed value with a reference of the statement. distinct_nontrivial = distinct (function, variable-state tuple, outcome class) triples.",
            assumptions: &[
                "vfs.config_dir with neither XDG_CONFIG_HOME nor HOME set is not specified and not judged",
                "path_dirs has no default: an unset PATH is expected to fail",
                "values are UTF-8; numeric means a plain unsigned decimal",
            ],
            shards_quick: 8,
            shards_thorough: 16,
            budget_quick_s: 180,
            budget_thorough_s: 900,
            min_evals: 300,
            exhaustive_capable: false,
        },
    ]
}

fn ps(p: &Path) -> String {
    p.to_str().unwrap_or("<non-utf8>").to_string()
}
fn esc_line(s: &str) -> String {
    s.replace('\\', "\\\\").replace('\t', "\\t").replace('\n', "\\n")
}

// ("é": literal text that is not ASCII, next to every kind of variable reference)
const TOKS: [&str; 10] = ["a", "/", "~", "$V1", "${V1}", "$V2", "$", "${}", "$UNSET", "é"];

// ---------------------------------------------------------------------------------------------
// Child side
// ---------------------------------------------------------------------------------------------
pub fn envprobe(args: &[String]) {
    crate::infra::silence_panics();
    let out = std::io::stdout();
    let mut o = std::io::BufWriter::new(out.lock());
    match args[0].as_str() {
        "absio" => super::absprop::absio_child(),
        "expand" => {
            let max: usize = args[1].parse().unwrap();
            let _ = std::env::set_current_dir("/");
            let mem = Memfs::new();
            for_all_strings(&TOKS, max, |i, t| {
                let e = catch(|| sys::expand(t));
                let e2 = catch(|| Path::new(t).expand());
                let line = |r: &Result<RvResult<PathBuf>, String>| match r {
                    Ok(Ok(p)) => format!("ok\t{}", esc_line(&ps(p))),
                    Ok(Err(_)) => "err\t".to_string(),
                    Err(m) => format!("panic\t{}", esc_line(m)),
                };
                let _ = writeln!(o, "E\t{}\t{}", i, line(&e));
                if line(&e) != line(&e2) {
                    let _ = writeln!(o, "X\t{}\t{}", i, line(&e2));
                }
                if !t.is_empty() {
                    let a = catch(|| mem.abs(t));
                    let b = catch(|| Stdfs::abs(t));
                    let _ = writeln!(o, "M\t{}\t{}", i, line(&a));
                    let _ = writeln!(o, "S\t{}\t{}", i, line(&b));
                }
            });
        },
        "xdg" => {
            // args: name, stdfs-cwd, then candidate dirs that contain the file on the Memfs
            let name = &args[1];
            let r = |x: RvResult<PathBuf>| match x {
                Ok(p) => format!("ok\t{}", esc_line(&ps(&p))),
                Err(_) => "err\t".to_string(),
            };
            let rv = |x: RvResult<Vec<PathBuf>>| match x {
                Ok(v) => format!("ok\t{}", v.iter().map(|p| esc_line(&ps(p))).collect::<Vec<_>>().join("\u{1}")),
                Err(_) => "err\t".to_string(),
            };
            let _ = writeln!(o, "config_dir\t{}", r(user::config_dir()));
            let _ = writeln!(o, "cache_dir\t{}", r(user::cache_dir()));
            let _ = writeln!(o, "data_dir\t{}", r(user::data_dir()));
            let _ = writeln!(o, "state_dir\t{}", r(user::state_dir()));
            let _ = writeln!(o, "runtime_dir\t{}", r(Ok(user::runtime_dir())));
            let _ = writeln!(o, "sys_config_dirs\t{}", rv(user::sys_config_dirs()));
            let _ = writeln!(o, "sys_data_dirs\t{}", rv(user::sys_data_dirs()));
            let _ = writeln!(o, "path_dirs\t{}", rv(user::path_dirs()));
            for (u, g) in [(0u32, 0u32), (0, 5), (1000, 1000), (1000, 0)] {
                let (a, b) = user::getrids(u, g);
                let _ = writeln!(o, "getrids({},{})\tok\t{},{}", u, g, a, b);
            }
            let cwd = &args[2];
            if std::env::set_current_dir(cwd).is_ok() {
                let mem = Memfs::new();
                let _ = mem.mkdir_p(cwd);
                let _ = mem.set_cwd(cwd);
                // args[3] says what the entry called `name` is in the directories that hold it
                let kind = args[3].as_str();
                for d in &args[4..] {
                    let _ = mem.mkdir_p(d);
                    let held = Path::new(d).join(name);
                    match kind {
                        "kind=dir" => {
                            let _ = mem.mkdir_p(&held);
                        },
                        "kind=link" => {
                            let real = Path::new(d).join(format!("{}.real", name));
                            let _ = mem.mkfile(&real);
                            let _ = mem.symlink(&held, &real);
                        },
                        _ => {
                            let _ = mem.mkfile(&held);
                        },
                    }
                }
                let opt = |x: Option<PathBuf>| match x {
                    Some(p) => format!("ok\t{}", esc_line(&ps(&p))),
                    None => "none\t".to_string(),
                };
                let _ = writeln!(o, "memfs.config_dir\t{}", opt(mem.config_dir(name)));
                let _ = writeln!(o, "vfs-memfs.config_dir\t{}", opt(Vfs::Memfs(mem).config_dir(name)));
                let _ = writeln!(o, "stdfs.config_dir\t{}", opt(Vfs::stdfs().config_dir(name)));
            }
        },
        _ => std::process::exit(2),
    }
    let _ = o.flush();
}

fn spawn_child(args: &[String], env: &Env) -> Result<String, String> {
    let exe = std::env::current_exe().map_err(|e| e.to_string())?;
    let mut c = Command::new(exe);
    c.arg("envprobe").args(args).env_clear().stdin(Stdio::null()).stderr(Stdio::null());
    for (k, v) in env {
        c.env(k, v);
    }
    // every child also carries a variable whose value is not UTF-8 and that nothing refers to: a function that reads
    // the variables it is asked about never notices it (one that walks the whole environment does)
    {
        use std::os::unix::ffi::OsStrExt;
        c.env("RV_RAW_BYTES", std::ffi::OsStr::from_bytes(b"r\xff\xfew"));
    }
    let out = c.output().map_err(|e| e.to_string())?;
    if !out.status.success() {
        return Err(format!("child failed: {:?}", out.status));
    }
    String::from_utf8(out.stdout).map_err(|e| e.to_string())
}

// ---------------------------------------------------------------------------------------------
// C17
// ---------------------------------------------------------------------------------------------
fn val_class(v: Option<&String>) -> &'static str {
    match v {
        None => "unset",
        Some(s) if s.is_empty() => "empty",
        Some(s) if s.starts_with('/') => "absolute",
        Some(s) if s.contains('/') => "has-sep",
        Some(s) if !s.is_ascii() => "multibyte",
        Some(_) => "plain",
    }
}
fn unesc(s: &str) -> String {
    let mut o = String::new();
    let mut it = s.chars();
    while let Some(c) = it.next() {
        if c == '\\' {
            match it.next() {
                Some('t') => o.push('\t'),
                Some('n') => o.push('\n'),
                Some(x) => o.push(x),
                None => {},
            }
        } else {
            o.push(c);
        }
    }
    o
}
fn tmpl_class(t: &str) -> String {
    let mut v = vec![];
    if t.contains('~') {
        v.push(if t.starts_with('~') { "lead-tilde" } else { "inner-tilde" });
    }
    if t.matches('~').count() > 1 {
        v.push("many-tilde");
    }
    if t.contains("${}") {
        v.push("empty-braced");
    }
    if t.contains("${V1}") {
        v.push("braced");
    }
    if t.contains("$V1") || t.contains("$V2") {
        v.push("plain-var");
    }
    if t.contains("$UNSET") {
        v.push("unset-var");
    }
    if t.ends_with('$') || t.contains("$/") || t.contains("$$") {
        v.push("bare-dollar");
    }
    if t.contains('é') && !v.is_empty() {
        v.push("non-ascii-text");
    }
    if v.is_empty() {
        "literal".into()
    } else {
        v.join("+")
    }
}
fn std_comps(s: &str) -> Vec<String> {
    Path::new(s).components().map(|c| c.as_os_str().to_str().unwrap().to_string()).collect()
}

fn c17(ctx: &Ctx, rep: &mut Report) {
    let mut vals: Vec<Option<&str>> = vec![None, Some(""), Some("x"), Some("x/y"), Some("/abs")];
    if ctx.thorough {
        for v in ["/h/é", "/t/", "..", "x/../y", "/", "a b", "€"] {
            vals.push(Some(v));
        }
    }
    let max = if ctx.thorough { 5 } else { 4 };
    let mut templates: Vec<String> = vec![];
    for_all_strings(&TOKS, max, |_, t| templates.push(t.to_string()));
    let mut envs = vec![];
    for h in &vals {
        for v1 in &vals {
            for v2 in &vals {
                let mut e = Env::new();
                if let Some(h) = h {
                    e.insert("HOME".into(), h.to_string());
                }
                if let Some(v) = v1 {
                    e.insert("V1".into(), v.to_string());
                }
                if let Some(v) = v2 {
                    e.insert("V2".into(), v.to_string());
                }
                envs.push(e);
            }
        }
    }
    rep.count("environments_total", if ctx.shard == 0 { envs.len() as u64 } else { 0 });
    rep.count("templates_per_environment", if ctx.shard == 0 { templates.len() as u64 } else { 0 });
    for (ei, env) in envs.iter().enumerate() {
        if !ctx.mine(ei as u64) {
            continue;
        }
        set_case("c17-child", &format!("{:?}", env));
        WATCHDOG_PAUSED.store(true, std::sync::atomic::Ordering::Relaxed);
        let out = spawn_child(&["expand".to_string(), max.to_string()], env);
        WATCHDOG_PAUSED.store(false, std::sync::atomic::Ordering::Relaxed);
        let out = match out {
            Ok(o) => o,
            Err(e) => {
                rep.inconclusive(&format!("child for environment {:?} failed: {}", env, e));
                continue;
            },
        };
        rep.count("child_processes", 1);
        let ecls = format!("HOME={},V1={},V2={}", val_class(env.get("HOME")), val_class(env.get("V1")), val_class(env.get("V2")));
        for line in out.lines() {
            let f: Vec<&str> = line.splitn(4, '\t').collect();
            if f.len() < 3 {
                continue;
            }
            let idx: usize = f[1].parse().unwrap_or(usize::MAX);
            let t = match templates.get(idx) {
                Some(t) => t,
                None => {
                    rep.inconclusive("child printed an unknown template index");
                    continue;
                },
            };
            let val = unesc(f.get(3).cloned().unwrap_or(""));
            let tc = tmpl_class(t);
            let wit = |exp: &str| {
                J::obj(vec![
                    ("template", J::s(t)),
                    ("env", J::Obj(env.iter().map(|(k, v)| (k.clone(), J::s(v))).collect())),
                    ("got", J::s(format!("{} {}", f[2], val))),
                    ("expected", J::s(exp)),
                ])
            };
            match f[0] {
                "E" => {
                    rep.eval();
                    if f[2] == "panic" {
                        rep.violation(&format!("ref:expand({}):no-panic→panic", tc), wit("no panic"));
                        continue;
                    }
                    match ref_expand(env, t) {
                        None => rep.count("unspecified_templates_skipped", 1),
                        Some(Err(())) => {
                            if f[2] != "err" {
                                rep.violation(&format!("ref:expand({}):Err→Ok", tc), wit("Err"));
                            }
                            if tc != "literal" {
                                rep.key_str(&format!("{}|{}|err", tc, ecls));
                            }
                        },
                        Some(Ok(Expanded::Verbatim(x))) => {
                            if f[2] != "ok" || val != x {
                                rep.violation(&format!("ref:expand({}):unchanged→{}", tc, if f[2] == "ok" { "changed" } else { "Err" }), wit(&x));
                            }
                        },
                        Some(Ok(Expanded::Path(p))) => {
                            let exp = ps(&p);
                            if f[2] != "ok" {
                                rep.violation(&format!("ref:expand({}):Ok→Err", tc), wit(&exp));
                            } else if std_comps(&val) != std_comps(&exp) {
                                rep.violation(&format!("ref:expand({}):substituted-components→differs", tc), wit(&exp));
                            }
                            rep.key_str(&format!("{}|{}|ok", tc, ecls));
                            if rep.want_sample() && tc.contains("braced") && tc.contains("lead-tilde") {
                                rep.sample(J::obj(vec![
                                    ("template", J::s(t)),
                                    ("env", J::Obj(env.iter().map(|(k, v)| (k.clone(), J::s(v))).collect())),
                                    ("expand", J::s(&val)),
                                ]));
                            }
                        },
                    }
                },
                "X" => rep.violation("ref:expand:ext-vs-fn", wit("PathExt::expand == sys::expand")),
                "M" | "S" => {
                    rep.eval();
                    let who = if f[0] == "M" { "memfs" } else { "stdfs" };
                    if f[2] == "panic" {
                        rep.violation(&format!("ref:abs-in-child({},{}):no-panic→panic", who, tc), wit("no panic"));
                        continue;
                    }
                    match ref_abs(env, "/", t) {
                        None => {},
                        Some(Err(())) => {
                            if f[2] != "err" {
                                rep.violation(&format!("ref:abs-in-child({},{}):Err→Ok", who, tc), wit("Err"));
                            }
                        },
                        Some(Ok(x)) => {
                            if f[2] != "ok" || val != x {
                                rep.violation(&format!("ref:abs-in-child({},{}):clean-absolute→differs", who, tc), wit(&x));
                            }
                        },
                    }
                },
                _ => {},
            }
        }
    }
}

// ---------------------------------------------------------------------------------------------
// C18
// ---------------------------------------------------------------------------------------------
fn split_paths(v: &str) -> Vec<String> {
    v.split(':').filter(|x| !x.is_empty()).map(|x| x.to_string()).collect()
}
fn home_default(env: &Env, tail: &[&str]) -> Result<String, ()> {
    match env.get("HOME") {
        Some(h) => {
            let mut p = PathBuf::from(h);
            for t in tail {
                p.push(t);
            }
            let p: PathBuf = p.components().collect();
            Ok(ps(&p))
        },
        None => Err(()),
    }
}
fn xdg_home(env: &Env, var: &str, tail: &[&str]) -> Result<String, ()> {
    match env.get(var) {
        Some(v) => Ok(v.clone()),
        None => home_default(env, tail),
    }
}
fn var_state(v: Option<&String>) -> &'static str {
    match v {
        None => "unset",
        Some(s) if s.is_empty() => "empty",
        Some(s) if s.contains("::") || s.starts_with(':') || s.ends_with(':') => "list-with-empty-segments",
        Some(s) if s.contains(':') => "list",
        Some(_) => "single",
    }
}

fn c18(ctx: &Ctx, rep: &mut Report) {
    let sandbox = crate::fsops::Sandbox::new("c18");
    let sb = sandbox.path.clone();
    let d = |n: &str| format!("{}/{}", sb, n);
    // value sets
    let home_vals: Vec<Option<String>> = vec![None, Some(d("h"))];
    let xh_vals = |n: &str| vec![None, Some(String::new()), Some(d(n))];
    let list_vals = |a: &str, b: &str| {
        vec![None, Some(String::new()), Some(d(a)), Some(format!("{}:{}", d(a), d(b))), Some(format!(":{}::{}:", d(a), d(b))), Some(":".to_string())]
    };
    let sudo_vals: Vec<Option<String>> = vec![None, Some("7".into()), Some("x".into()), Some(String::new()), Some("4294967296".into()), Some("-1".into()), Some("0".into())];
    let vars: Vec<(&str, Vec<Option<String>>)> = vec![
        ("HOME", home_vals),
        ("XDG_CONFIG_HOME", xh_vals("ch")),
        ("XDG_CACHE_HOME", xh_vals("cache")),
        ("XDG_DATA_HOME", xh_vals("data")),
        ("XDG_STATE_HOME", xh_vals("state")),
        ("XDG_RUNTIME_DIR", xh_vals("run")),
        // (also lists that name the user's own config directory again, behind or in front of a system directory: the
        // user directory still has to be searched first)
        ("XDG_CONFIG_DIRS", {
            let mut v = list_vals("c1", "c2");
            v.push(Some(format!("{}:{}", d("c1"), d("ch"))));
            v.push(Some(format!("{}:{}:{}", d("ch"), d("c1"), d("ch"))));
            // directories that are not spelled cleanly: the lookup goes through the filesystem's own path resolution
            // like any other call, and what is returned is the directory as it was listed
            v.push(Some(format!("{}/../c2", d("c1"))));
            v.push(Some(format!("{}//c1/.:{}/", sb, d("c2"))));
            v
        }),
        ("XDG_DATA_DIRS", list_vals("d1", "d2")),
        ("PATH", list_vals("p1", "p2")),
        ("SUDO_UID", sudo_vals.clone()),
        ("SUDO_GID", sudo_vals),
        // variables that none of the functions is documented to read: the answers do not depend on them (a fallback
        // taken from the platform's idea of a temp or home directory would)
        ("TMPDIR", vec![None, Some(d("tmpd")), Some(String::new())]),
        ("XDG_CONFIG_HOME_DIRS", vec![None, Some(d("bogus"))]),
    ];
    // configurations: per function full product of the variables it reads, others at index 0/1 defaults; + random
    let groups: Vec<Vec<usize>> = vec![vec![0, 1, 6], vec![0, 2], vec![0, 3], vec![0, 4], vec![5, 11], vec![7], vec![8], vec![9, 10], vec![0, 11, 12]];
    let mut configs: Vec<Vec<usize>> = vec![];
    for g in &groups {
        let mut idx = vec![0usize; g.len()];
        loop {
            let mut c: Vec<usize> = vars.iter().map(|(_, v)| if v.len() > 2 { 2 } else { 1 }).collect();
            for (k, gi) in g.iter().enumerate() {
                c[*gi] = idx[k];
            }
            configs.push(c);
            let mut k = 0;
            loop {
                if k == g.len() {
                    break;
                }
                idx[k] += 1;
                if idx[k] < vars[g[k]].1.len() {
                    break;
                }
                idx[k] = 0;
                k += 1;
            }
            if k == g.len() {
                break;
            }
        }
    }
    let mut rng = Rng::new(ctx.seed, "c18-configs");
    let nrand = if ctx.thorough { 100_000 } else { 500 };
    for _ in 0..nrand {
        configs.push(vars.iter().map(|(_, v)| rng.below(v.len())).collect());
    }
    let name = "app.toml";
    let cands = ["ch", "c1", "c2", "h/.config", "etc"];
    let cwd = d("cwd");
    std::fs::create_dir_all(&cwd).unwrap();
    for (ci, cfg) in configs.iter().enumerate() {
        if !ctx.mine(ci as u64) {
            continue;
        }
        let mut env = Env::new();
        for (k, (n, v)) in vars.iter().enumerate() {
            if let Some(x) = &v[cfg[k]] {
                env.insert(n.to_string(), x.clone());
            }
        }
        // which candidate directories contain the file (bit mask from the config index)
        let mut r2 = Rng::new(ctx.seed, &format!("c18-contain-{}", ci));
        let mask = r2.below(1 << cands.len());
        // what the held entry is: mostly a regular file, now and then a directory of that name or a link to a file
        // next to it ("the first directory that contains name" does not ask what kind of thing name is)
        let kind = match r2.below(6) {
            0 => "kind=dir",
            1 => "kind=link",
            _ => "kind=file",
        };
        for (k, c) in cands.iter().enumerate() {
            let dir = d(c);
            let _ = std::fs::remove_dir_all(&dir);
            if mask & (1 << k) != 0 {
                std::fs::create_dir_all(&dir).unwrap();
                let held = format!("{}/{}", dir, name);
                match kind {
                    "kind=dir" => std::fs::create_dir_all(&held).unwrap(),
                    "kind=link" => {
                        std::fs::write(format!("{}.real", held), b"x").unwrap();
                        std::os::unix::fs::symlink(format!("{}.real", name), &held).unwrap();
                    },
                    _ => std::fs::write(&held, b"x").unwrap(),
                }
            }
        }
        let holders: Vec<String> = cands.iter().enumerate().filter(|(k, _)| mask & (1 << k) != 0).map(|(_, c)| d(c)).collect();
        let mut args = vec!["xdg".to_string(), name.to_string(), cwd.clone(), kind.to_string()];
        args.extend(holders.iter().cloned());
        set_case("c18-child", &format!("{:?}", env));
        WATCHDOG_PAUSED.store(true, std::sync::atomic::Ordering::Relaxed);
        let out = spawn_child(&args, &env);
        WATCHDOG_PAUSED.store(false, std::sync::atomic::Ordering::Relaxed);
        let out = match out {
            Ok(o) => o,
            Err(e) => {
                rep.inconclusive(&format!("child failed: {}", e));
                continue;
            },
        };
        rep.count("child_processes", 1);
        let st = |n: &str| var_state(env.get(n));
        for line in out.lines() {
            let f: Vec<&str> = line.splitn(3, '\t').collect();
            if f.len() < 2 {
                continue;
            }
            rep.eval();
            let func = f[0];
            let got_kind = f[1];
            let got_val = unesc(f.get(2).cloned().unwrap_or(""));
            let (expected, states): (Result<String, ()>, String) = match func {
                "config_dir" => (xdg_home(&env, "XDG_CONFIG_HOME", &[".config"]), format!("XDG_CONFIG_HOME={},HOME={}", st("XDG_CONFIG_HOME"), st("HOME"))),
                "cache_dir" => (xdg_home(&env, "XDG_CACHE_HOME", &[".cache"]), format!("XDG_CACHE_HOME={},HOME={}", st("XDG_CACHE_HOME"), st("HOME"))),
                "data_dir" => (xdg_home(&env, "XDG_DATA_HOME", &[".local", "share"]), format!("XDG_DATA_HOME={},HOME={}", st("XDG_DATA_HOME"), st("HOME"))),
                "state_dir" => (xdg_home(&env, "XDG_STATE_HOME", &[".local", "state"]), format!("XDG_STATE_HOME={},HOME={}", st("XDG_STATE_HOME"), st("HOME"))),
                "runtime_dir" => (Ok(env.get("XDG_RUNTIME_DIR").cloned().unwrap_or_else(|| "/tmp".into())), format!("XDG_RUNTIME_DIR={}", st("XDG_RUNTIME_DIR"))),
                "sys_config_dirs" | "sys_data_dirs" | "path_dirs" => {
                    let (var, def): (&str, Option<Vec<&str>>) = match func {
                        "sys_config_dirs" => ("XDG_CONFIG_DIRS", Some(vec!["/etc/xdg"])),
                        "sys_data_dirs" => ("XDG_DATA_DIRS", Some(vec!["/usr/local/share", "/usr/share"])),
                        _ => ("PATH", None),
                    };
                    let exp = match (env.get(var), &def) {
                        (Some(v), Some(def)) => {
                            let l = split_paths(v);
                            Ok(if l.is_empty() { def.iter().map(|x| x.to_string()).collect::<Vec<_>>() } else { l })
                        },
                        (Some(v), None) => Ok(split_paths(v)),
                        (None, Some(def)) => Ok(def.iter().map(|x| x.to_string()).collect()),
                        (None, None) => Err(()),
                    };
                    (exp.map(|l| l.join("\u{1}")), format!("{}={}", var, st(var)))
                },
                x if x.starts_with("getrids(") => {
                    let inner = &x[8..x.len() - 1];
                    let mut it = inner.split(',');
                    let u: u32 = it.next().unwrap().parse().unwrap();
                    let g: u32 = it.next().unwrap().parse().unwrap();
                    let num = |n: &str| env.get(n).filter(|s| !s.is_empty() && s.bytes().all(|b| b.is_ascii_digit())).and_then(|s| s.parse::<u32>().ok());
                    let exp = match (u, num("SUDO_UID"), num("SUDO_GID")) {
                        (0, Some(a), Some(b)) => (a, b),
                        _ => (u, g),
                    };
                    let cls = |n: &str| match (env.get(n), num(n)) {
                        (None, _) => "unset",
                        (Some(_), Some(_)) => "numeric",
                        (Some(s), None) if s.is_empty() => "empty",
                        _ => "non-numeric",
                    };
                    (Ok(format!("{},{}", exp.0, exp.1)), format!("uid={},SUDO_UID={},SUDO_GID={}", if u == 0 { "root" } else { "user" }, cls("SUDO_UID"), cls("SUDO_GID")))
                },
                "memfs.config_dir" | "vfs-memfs.config_dir" | "stdfs.config_dir" => {
                    let first = match xdg_home(&env, "XDG_CONFIG_HOME", &[".config"]) {
                        Ok(x) => x,
                        Err(()) => {
                            rep.count("config_dir_lookup_unspecified_skipped", 1);
                            continue;
                        },
                    };
                    let mut list = vec![first];
                    match env.get("XDG_CONFIG_DIRS") {
                        Some(v) if !split_paths(v).is_empty() => list.extend(split_paths(v)),
                        _ => list.push("/etc/xdg".into()),
                    }
                    // an empty candidate resolves against the (empty) cwd and /etc/xdg never holds the file
                    let hit = list.iter().find(|c| !c.is_empty() && holders.iter().any(|h| *h == crate::refs::go_clean(c)));
                    let pos = hit.map(|h| list.iter().position(|c| c == h).unwrap());
                    (
                        match hit {
                            Some(h) => Ok(h.clone()),
                            None => Err(()),
                        },
                        format!(
                            "XDG_CONFIG_HOME={},XDG_CONFIG_DIRS={},HOME={},hit={},{}",
                            st("XDG_CONFIG_HOME"),
                            st("XDG_CONFIG_DIRS"),
                            st("HOME"),
                            pos.map(|p| p.min(3).to_string()).unwrap_or_else(|| "none".into()),
                            kind
                        ),
                    )
                },
                _ => continue,
            };
            let ok = match &expected {
                Ok(x) => got_kind == "ok" && got_val == *x,
                Err(()) => got_kind != "ok",
            };
            rep.key_str(&format!("{}|{}|{}", func, states, expected.is_ok()));
            if !ok {
                rep.violation(
                    &format!("ref:{}({}):{}→{}", func, states, if expected.is_ok() { "value" } else { "none/err" }, if got_kind == "ok" { "other-value" } else { got_kind }),
                    J::obj(vec![
                        ("function", J::s(func)),
                        ("env", J::Obj(env.iter().map(|(k, v)| (k.clone(), J::s(v))).collect())),
                        ("holders", J::strs(&holders)),
                        ("got", J::s(format!("{} {}", got_kind, got_val.replace('\u{1}', ":")))),
                        ("expected", J::s(format!("{:?}", expected.as_ref().map(|x| x.replace('\u{1}', ":"))))),
                    ]),
                );
            } else if rep.want_sample() && func.ends_with(".config_dir") && expected.is_ok() && holders.len() > 1 {
                rep.sample(J::obj(vec![
                    ("function", J::s(func)),
                    ("env", J::Obj(env.iter().map(|(k, v)| (k.clone(), J::s(v))).collect())),
                    ("holders", J::strs(&holders)),
                    ("got", J::s(&got_val)),
                ]));
            }
        }
    }
}
