// C02: Stdfs and Memfs are interchangeable (differential monitor + independent disk observer)
use rivia::prelude::*;

use super::{macros::{in_domain_state, through_link}, memfs::*, Prop};
use crate::{fsops::*, infra::*, model::*, stdside::*};

pub fn props() -> Vec<Prop> {
    vec![Prop {
        id: "C02",
        run: c02,
        tools: None,
        rule: "differential monitor: (a) every in-domain reference state of the bounded namespace (names {a,b}, depth 2; every symlink resolves to an existing non-link entry) is materialised directly on disk with std::fs and inside a Memfs (verified by the observers before use), then every call of the finite alphabet (every mutator and query x every path incl. '/', absent paths; move_p/copy/symlink over all ordered pairs; builder options) whose arguments do not pass through a symlink is run on both; success-or-failure and returned values must be equal and the tree seen by the std::fs observer (names, kinds, bytes, link targets made absolute, permission bits) must equal the Memfs snapshot; (b) seeded multi-step histories of 40-120 calls inside one sandbox, continued while the state stays in the domain. Even shards run as root, odd shards as uid 1000 (whose ids equal Memfs's default owner, so owner()/uid()/gid() are compared there; under root they are not). umask 022. distinct_nontrivial = distinct (uid configuration, operation, argument classes, outcome class) tuples. Later additions: every second enumerated state carries position dependent permission bits; the alphabet holds builders that are created under one cwd and executed under another, optionally twice (Op::Held); readlink results are compared through the navigation law clean(dir(link)/text); a history ends when the kernel cwd and the Memfs cwd stop naming the same directory; copies from the root, follow-copies of trees that contain links (C09 finding) and copies into the own subtree that overwrite a source entry are outside the compared domain (counted).",
        assumptions: &[
            "error kinds are not compared (the statement asks for the same success-or-failure outcome and returned values)",
            "timestamps and owners of the trees are not compared; under uid 1000 only modes that keep u+rwx on directories / u+rw on files and chown-to-self are generated (permission enforcement is an OS behaviour Memfs does not model)",
            "tmpfs (/dev/shm) or $VERIF_TMP",
        ],
        shards_quick: 8,
        shards_thorough: 16,
        budget_quick_s: 300,
        budget_thorough_s: 1800,
        min_evals: 10_000,
        exhaustive_capable: true,
    }]
}

fn norm_res(r: &Res, unpriv: bool, op: &Op) -> String {
    match r {
        Res::Err(_) => "Err".into(),
        Res::Panic(_) => "panic".into(),
        Res::Pair(..) | Res::Num(_) if !unpriv && matches!(op, Op::Owner(_) | Op::Uid(_) | Op::Gid(_)) => "Ok(owner ids: not compared under root)".into(),
        r => format!("{:?}", r),
    }
}

fn entry_fields_diff(a: &[EntryView], b: &[EntryView]) -> String {
    let mut f = std::collections::BTreeSet::new();
    if a.len() != b.len() {
        f.insert("count");
    }
    for x in a {
        if let Some(y) = b.iter().find(|y| y.path == x.path && y.alt == x.alt) {
            if x.mode != y.mode {
                f.insert(if x.is_symlink { "mode-of-link" } else { "mode" });
            }
            if x.is_exec != y.is_exec || x.is_readonly != y.is_readonly {
                f.insert(if x.is_symlink { "exec/readonly-of-link" } else { "exec/readonly" });
            }
            if x.rel != y.rel {
                f.insert("rel");
            }
            if (x.is_dir, x.is_file, x.is_symlink, x.is_symlink_dir, x.is_symlink_file) != (y.is_dir, y.is_file, y.is_symlink, y.is_symlink_dir, y.is_symlink_file) {
                f.insert("kind-flags");
            }
            if x.following != y.following || x.file_name != y.file_name {
                f.insert("other");
            }
        } else {
            f.insert("path/alt");
        }
    }
    f.into_iter().collect::<Vec<_>>().join("+")
}
fn tree_diff_categories(a: &std::collections::BTreeMap<String, String>, b: &std::collections::BTreeMap<String, String>) -> String {
    let mut f = std::collections::BTreeSet::new();
    for k in a.keys().chain(b.keys()) {
        match (a.get(k), b.get(k)) {
            (Some(x), Some(y)) if x == y => {},
            (Some(x), Some(y)) => {
                let (kx, ky) = (x.split(' ').next().unwrap_or(""), y.split(' ').next().unwrap_or(""));
                if kx.starts_with("link") && ky.starts_with("link") {
                    f.insert("link-target-differs");
                } else if kx != ky {
                    f.insert("kind-differs");
                } else if x.split(' ').nth(1) != y.split(' ').nth(1) {
                    f.insert("mode-differs");
                } else {
                    f.insert("content-differs");
                }
            },
            (Some(_), None) => {
                f.insert("only-in-memfs");
            },
            (None, Some(_)) => {
                f.insert("only-on-disk");
            },
            _ => {},
        }
    }
    f.into_iter().collect::<Vec<_>>().join("+")
}

pub struct Pairing {
    pub root: String,
    pub unpriv: bool,
}

impl Pairing {
    /// run one call on both backends from the same state; returns (memfs result, stdfs result, memfs tree, disk tree)
    fn step(&self, mem: &Memfs, op: &Op) -> (Res, Res, NTree, NTree) {
        let mo = map_op(op, &self.root);
        let rs = exec(&Stdfs::new(), &mo);
        let rm = exec(mem, &mo);
        let tm = restrict(&memfs_ntree(&mem.verif_snapshot()), &self.root);
        let ts = disk_ntree(&self.root);
        (rm, rs, tm, ts)
    }
}

/// copy under follow of a tree that itself contains links: the recorded C09 finding (what is behind such a link is
/// copied under the target's path)
fn follow_srclinks(state: &NTree, model: &Model, op: &Op) -> bool {
    if let Op::CopyB(s, _, _, true) = op {
        if let Some(Ok(sa)) = model.abs(s) {
            let sroot = match state.nodes.get(&sa).map(|n| n.kind.clone()) {
                Some(NKind::Link { target, .. }) => target,
                _ => sa.clone(),
            };
            return state.nodes.contains_key(&sroot) && state.subtree(&sroot).iter().any(|k| matches!(state.nodes[k].kind, NKind::Link { .. }));
        }
    }
    false
}

fn judge(p: &Pairing, state: &NTree, model: &Model, op: &Op, rm: &Res, rs: &Res, tm: &NTree, ts: &NTree, hist: &[String], rep: &mut Report) -> bool {
    // the misplaced copies of the C09 finding meet different collisions on the two backends (a path through an existing
    // link resolves on the real one only): such a call is compared only when both backends report success
    if follow_srclinks(state, model, op) && (rm.is_err() || rs.is_err()) {
        rep.count("not_compared:follow-copy-with-links-in-source-failed-on-a-backend", 1);
        return false;
    }
    let cls = arg_classes(state, model, op);
    let cfg = if p.unpriv { "uid1000" } else { "root" };
    rep.key_str(&format!("{}|{}|{}|{}", cfg, op.name(), cls, rs.class().split('(').next().unwrap_or("")));
    let (mut nm, mut ns) = (norm_res(rm, p.unpriv, op), norm_res(rs, p.unpriv, op));
    // readlink: the relative text is compared through the navigation law clean(dir(link)/text) - the real backend
    // keeps the text a link was created with when the link is moved (recorded finding, keyed on move_p), and a
    // target that is the link's own directory has no relative spelling (C16)
    if let (Op::Readlink(lp), Res::Path(a), Res::Path(b)) = (op, rm, rs) {
        if let Some(Ok(la)) = model.abs(lp) {
            let dir = parent_of(&map_path(&la, &p.root)).unwrap_or_else(|| "/".into());
            let nav = |t: &str| if t.starts_with('/') { crate::refs::go_clean(t) } else { crate::refs::go_clean(&format!("{}/{}", dir, t)) };
            nm = format!("Path(navigates to {:?})", nav(a));
            ns = format!("Path(navigates to {:?})", nav(b));
        }
    }
    let (mut cm, mut cs) = (comparable(tm), comparable(ts));
    // ... and then only on WHERE entries are: two misplaced copies that land on the same path overwrite each other in
    // the order of the unordered traversal, so kinds-at-paths are compared, modes and contents are not
    let srclinks = follow_srclinks(state, model, op);
    if srclinks {
        for m in [&mut cm, &mut cs] {
            for v in m.values_mut() {
                *v = v.split(' ').next().unwrap_or("").to_string();
            }
        }
    }
    let mut ok = true;
    let wit = |what: &str, detail: String| {
        J::obj(vec![
            ("uid", J::s(cfg)),
            ("state", state.to_json()),
            ("history_tail", J::strs(&hist[hist.len().saturating_sub(8)..])),
            ("call", J::s(op.describe())),
            ("memfs", J::s(nm.replace(&p.root, "<R>").chars().take(400).collect::<String>())),
            ("stdfs", J::s(ns.replace(&p.root, "<R>").chars().take(400).collect::<String>())),
            ("what", J::s(what)),
            ("detail", J::s(detail.replace(&p.root, "<R>"))),
        ])
    };
    if nm != ns {
        ok = false;
        let outcome = match (rm.is_err(), rs.is_err()) {
            (true, false) => "memfs=Err,stdfs=Ok".to_string(),
            (false, true) => "memfs=Ok,stdfs=Err".to_string(),
            _ if matches!(rm, Res::Panic(_)) || matches!(rs, Res::Panic(_)) => "panic".to_string(),
            _ => match (rm, rs) {
                (Res::Entry(a), Res::Entry(b)) => format!("entry-fields-differ({})", entry_fields_diff(&[a.clone()], &[b.clone()])),
                (Res::Items(a), Res::Items(b)) => format!("entry-fields-differ({})", entry_fields_diff(a, b)),
                _ => "values-differ".to_string(),
            },
        };
        rep.violation(&format!("diff:{}({}):agree→{}", op.name(), cls, outcome), wit("result", String::new()));
    }
    // after a failure only the single-target calls promise an unchanged tree; a multi-entry call that fails half
    // way leaves what its (unordered) traversal had reached
    let multi = matches!(op, Op::Copy(..) | Op::CopyB(..) | Op::Chmod(..) | Op::ChmodB(..) | Op::Chown(..) | Op::ChownB(..) | Op::RemoveAll(..) | Op::MkfileM(..));
    // a directory copied into its own subtree where a copy lands on an entry that is itself still to be copied: what
    // that second copy carries depends on the order of the (unordered) traversal, on both backends
    let overlap = copy_overlap_collision(state, model, op);
    if overlap && cm != cs {
        rep.count("trees_not_compared:copy-into-own-subtree-overwrites-a-source-entry", 1);
        return false;
    }
    if cm != cs && !(multi && rm.is_err() && rs.is_err()) {
        ok = false;
        rep.violation(
            &format!("diff:{}({}):same-tree→{}({})", op.name(), cls, tree_diff_categories(&cm, &cs), if rs.is_err() { "after Err" } else { "after Ok" }),
            wit("tree (memfs vs disk)", diff_maps(&cm, &cs)),
        );
    }
    // (the process cwd of the real backend follows kernel semantics - it moves with a renamed directory and
    // resolves links - and is not part of the tree the statement's observer compares)
    ok
}

fn copy_overlap_collision(state: &NTree, model: &Model, op: &Op) -> bool {
    let (s, d) = match op {
        Op::Copy(s, d) | Op::CopyB(s, d, _, _) => (s, d),
        _ => return false,
    };
    let (sa, da) = match (model.abs(s), model.abs(d)) {
        (Some(Ok(a)), Some(Ok(b))) => (a, b),
        _ => return false,
    };
    // (under follow the source root is what the link points to)
    let sa = match (op, state.nodes.get(&sa).map(|n| n.kind.clone())) {
        (Op::CopyB(_, _, _, true), Some(NKind::Link { target, .. })) => target,
        _ => sa,
    };
    if !(da == sa || is_under(&da, &sa)) || !matches!(state.nodes.get(&sa).map(|n| &n.kind), Some(NKind::Dir)) {
        return false;
    }
    let droot = if state.is_real_dir(&da) { join(&da, base_of(&sa)) } else { da.clone() };
    state.subtree(&sa).iter().any(|k| {
        let dst = format!("{}{}", droot, &k[sa.len()..]);
        k != &dst && state.nodes.contains_key(&dst) && !matches!(state.nodes[&dst].kind, NKind::Dir)
    })
}

/// (path, observation, name of the first differing query) triples through the public API; link entries are left to
/// the known Entry::mode question and owner ids are only compared under uid 1000
fn api_observe_diffable<V: VirtualFileSystem>(v: &V, universe: &[String], unpriv: bool) -> Vec<(String, String, String)> {
    let mut out = vec![];
    for p in universe {
        let is_link = matches!(exec(v, &Op::IsSymlink(p.clone())), Res::Bool(true));
        let q = |op: Op| match exec(v, &op) {
            Res::Err(_) => "Err".to_string(),
            r => format!("{:?}", r),
        };
        let mut items: Vec<(&str, String)> = vec![
            ("exists", q(Op::Exists(p.clone()))),
            ("is_dir", q(Op::IsDir(p.clone()))),
            ("is_file", q(Op::IsFile(p.clone()))),
            ("is_symlink", q(Op::IsSymlink(p.clone()))),
            ("is_symlink_dir", q(Op::IsSymlinkDir(p.clone()))),
            ("is_symlink_file", q(Op::IsSymlinkFile(p.clone()))),
            ("read", q(Op::ReadBytes(p.clone()))),
            ("read_all", q(Op::ReadAll(p.clone()))),
            ("readlink", q(Op::Readlink(p.clone()))),
            ("readlink_abs", q(Op::ReadlinkAbs(p.clone()))),
            ("mode", q(Op::Mode(p.clone()))),
            ("paths", q(Op::Paths(p.clone()))),
        ];
        if !is_link {
            items.push(("is_exec", q(Op::IsExec(p.clone()))));
        }
        if unpriv {
            items.push(("owner", q(Op::Owner(p.clone()))));
        }
        for (n, r) in items {
            out.push((format!("{}({})", n, p), r, n.to_string()));
        }
    }
    out
}

fn alphabet(paths: &[String], unpriv: bool) -> Vec<Op> {
    let mut all: Vec<String> = vec!["/".into()];
    all.extend(paths.iter().cloned());
    all.push("/zz".into());
    all.push("/zz/n".into());
    let mut v = vec![];
    let (dm, fm) = if unpriv { (0o711u32, 0o640u32) } else { (0o511u32, 0o400u32) };
    for p in &all {
        let p = p.clone();
        v.extend(vec![
            Op::MkdirP(p.clone()),
            Op::MkdirM(p.clone(), dm),
            Op::Mkfile(p.clone()),
            Op::MkfileM(p.clone(), fm),
            // sticky / set-id bits are part of a mode on both backends
            Op::MkdirM(p.clone(), dm | 0o1000),
            Op::MkfileM(p.clone(), fm | 0o4000),
            Op::Chmod(p.clone(), 0o1755),
            // no permission bits at all (for the unprivileged workers the owner keeps access: see below)
            Op::MkdirM(p.clone(), if unpriv { 0o700 } else { 0 }),
            Op::MkfileM(p.clone(), if unpriv { 0o600 } else { 0 }),
            Op::WriteAll(p.clone(), b"w\n".to_vec()),
            Op::WriteLines(p.clone(), vec!["l1".into(), "".into()]),
            Op::AppendAll(p.clone(), b"+".to_vec()),
            Op::AppendLine(p.clone(), "al".into()),
            Op::AppendLines(p.clone(), vec![]),
            Op::WriteH(p.clone(), b"h".to_vec()),
            Op::AppendH(p.clone(), b"k".to_vec()),
            Op::ReadAll(p.clone()),
            Op::ReadLines(p.clone()),
            Op::ReadBytes(p.clone()),
            Op::Remove(p.clone()),
            Op::RemoveAll(p.clone()),
            Op::Readlink(p.clone()),
            Op::ReadlinkAbs(p.clone()),
            Op::Chmod(p.clone(), dm | 0o700),
            Op::ChmodB(p.clone(), ChmodO { all: None, dirs: Some(0o755), files: Some(0o644), sym: None, recurse: Some(false), follow: false }),
            Op::ChmodB(p.clone(), ChmodO { all: None, dirs: None, files: None, sym: Some("a:go-w,f:u+x".into()), recurse: None, follow: false }),
            Op::ChmodB(p.clone(), ChmodO { all: Some(0o750), dirs: None, files: None, sym: None, recurse: None, follow: true }),
            Op::SetCwd(p.clone()),
            Op::Abs(p.clone()),
            Op::Exists(p.clone()),
            Op::IsDir(p.clone()),
            Op::IsFile(p.clone()),
            Op::IsSymlink(p.clone()),
            Op::IsSymlinkDir(p.clone()),
            Op::IsSymlinkFile(p.clone()),
            Op::IsExec(p.clone()),
            Op::IsReadonly(p.clone()),
            Op::Mode(p.clone()),
            Op::Owner(p.clone()),
            Op::Uid(p.clone()),
            Op::Gid(p.clone()),
            Op::Entry(p.clone()),
            Op::Paths(p.clone()),
            Op::Dirs(p.clone()),
            Op::Files(p.clone()),
            Op::AllPaths(p.clone()),
            Op::AllDirs(p.clone()),
            Op::AllFiles(p.clone()),
            Op::Entries(p.clone()),
        ]);
        if unpriv {
            v.push(Op::Chown(p.clone(), 1000, 1000));
            v.push(Op::ChownB(p.clone(), ChownO { uid: Some(1000), gid: None, recurse: Some(false), follow: false }));
        } else {
            v.push(Op::Chown(p.clone(), 5, 6));
            v.push(Op::ChownB(p.clone(), ChownO { uid: None, gid: Some(7), recurse: None, follow: true }));
        }
        for q in &all {
            v.push(Op::MoveP(p.clone(), q.clone()));
            v.push(Op::Copy(p.clone(), q.clone()));
            v.push(Op::CopyB(p.clone(), q.clone(), CopyMode::Files(0o600), false));
            v.push(Op::CopyB(p.clone(), q.clone(), CopyMode::None, true));
            v.push(Op::Symlink(p.clone(), q.clone()));
        }
        v.push(Op::Symlink(p.clone(), "b".into()));
        v.push(Op::Symlink(p.clone(), "../a".into()));
    }
    // builders that are kept while the cwd changes / executed twice: both backends have to resolve their paths at the
    // same moment
    let held = |o: Op, c: &[&str]| Op::Held(Box::new(o), c.iter().map(|x| x.to_string()).collect());
    for rel in ["a", "b", "a/b"] {
        for cwds in [vec!["/", "/a"], vec!["/a", "/b"], vec!["/", "/a", "/b"], vec!["/b", "/"]] {
            v.push(held(Op::ChmodB(rel.into(), ChmodO { all: Some(0o750), dirs: None, files: None, sym: None, recurse: None, follow: false }), &cwds));
            v.push(held(Op::ChownB(rel.into(), ChownO { uid: Some(if unpriv { 1000 } else { 5 }), gid: None, recurse: None, follow: false }), &cwds));
            v.push(held(Op::CopyB(rel.into(), "zz9".into(), CopyMode::None, false), &cwds));
        }
    }
    v.push(Op::Cwd);
    v.push(Op::Root);
    v
}

fn in_domain_call(state: &NTree, model: &Model, op: &Op) -> bool {
    // (a held builder resolves relative paths against the cwds it sets itself: judged only on states without links,
    // where no spelling can pass through one)
    if matches!(op, Op::Held(..)) {
        return !state.nodes.values().any(|n| matches!(n.kind, NKind::Link { .. }));
    }
    for p in op.paths() {
        match model.abs(p) {
            Some(Ok(a)) => {
                if through_link(state, Some(&a)) {
                    return false;
                }
            },
            _ => {},
        }
    }
    if let Op::Copy(s, _) | Op::CopyB(s, _, _, _) | Op::MoveP(s, _) = op {
        if let Some(Ok(sa)) = model.abs(s) {
            // the sandbox root has a real name and a real parent, the virtual "/" has neither
            if sa == "/" {
                return false;
            }
            // copy under follow of a tree that itself contains links: recorded finding of C09 (what is behind such
            // a link is copied under the target's path; the two backends then meet different collisions)
            // (judged all the same when both backends report success - see follow_srclinks in judge())
        }
    }
    // a relative symlink target is resolved against the link's directory
    if let Op::Symlink(l, t) = op {
        if !t.starts_with('/') {
            if let Some(Ok(la)) = model.abs(l) {
                let raw = format!("{}/{}", parent_of(&la).unwrap_or_else(|| "/".into()), t);
                if let Some(Ok(ta)) = model.abs(&raw) {
                    if through_link(state, Some(&ta)) {
                        return false;
                    }
                }
            }
        }
    }
    true
}

fn c02(ctx: &Ctx, rep: &mut Report) {
    std::env::set_var("HOME", HOME);
    let (sb, root) = Sandbox::nested("c02");
    let unpriv = ctx.shard % 2 == 1;
    if unpriv && !drop_privileges(&sb, 1000, 1000) {
        rep.inconclusive("could not switch to uid 1000");
        return;
    }
    let pairing = Pairing { root: root.clone(), unpriv };
    // (a) state x call
    let paths = namespace(&["a", "b"], 2);
    let (muts, _) = sweep_alphabet(&paths, false);
    let cap = if ctx.thorough { 12_000 } else { 1_200 };
    let (states, complete) = enumerate_states(&muts, cap);
    if !complete {
        rep.exhaustive = false;
        if ctx.shard == 0 {
            rep.notes.push(format!("state enumeration stopped at the cap of {} reference states", cap));
        }
    }
    let ops = alphabet(&paths, unpriv);
    let mut obs_paths: Vec<String> = vec!["/".into()];
    obs_paths.extend(paths.iter().cloned());
    obs_paths.push("/zz".into());
    obs_paths.push("/zz/n".into());
    let mut n_states = 0;
    for (si, (state, _)) in states.iter().enumerate() {
        // each uid configuration sees every state: shards of equal parity share the states among them
        if (si / 1) % (ctx.shards / 2).max(1) != ctx.shard / 2 {
            continue;
        }
        if !in_domain_state(state) {
            continue;
        }
        // the cwd must be a directory for the real process; owners are not materialised
        if !state.is_real_dir(&state.cwd) {
            continue;
        }
        let mut st = state.clone();
        // every second state carries position dependent permission bits, so that a mode taken from the wrong
        // entry (a parent, the source root, a link instead of its target) shows
        let decorate = (si / (ctx.shards / 2).max(1)) % 2 == 1;
        for (k, n) in st.nodes.iter_mut() {
            if decorate && k != "/" {
                let h = k.bytes().fold(7u32, |a, b| a.wrapping_mul(31).wrapping_add(b as u32)) as usize;
                match n.kind {
                    NKind::Dir => n.mode = 0o40000 | [0o700, 0o750, 0o711, 0o755][h % 4],
                    NKind::File(_) => n.mode = 0o100000 | [0o600, 0o640, 0o644, 0o700][h % 4],
                    _ => {},
                }
            }
        }
        if decorate {
            rep.count("states_with_position_dependent_modes", 1);
        }
        for n in st.nodes.values_mut() {
            n.uid = OWNER;
            n.gid = OWNER;
            if unpriv {
                match n.kind {
                    NKind::Dir => n.mode |= 0o700,
                    NKind::File(_) => n.mode |= 0o600,
                    _ => {},
                }
            }
        }
        let state = &st;
        let model = tree_from(state, HOME);
        n_states += 1;
        for op in &ops {
            if !in_domain_call(state, &model, op) {
                rep.count("calls_outside_the_domain_skipped", 1);
                continue;
            }
            wipe(&root);
            if materialise_disk(state, &root).is_err() {
                rep.count("states_not_materialisable_on_disk", 1);
                break;
            }
            let mem = match materialise_memfs(state, &root) {
                Ok(m) => m,
                Err(_) => {
                    rep.count("states_not_materialisable_in_memfs", 1);
                    break;
                },
            };
            let cwd = if state.cwd == "/" { root.clone() } else { format!("{}{}", root, state.cwd) };
            let _ = std::env::set_current_dir(&cwd);
            let _ = mem.set_cwd(&cwd);
            // both sides must show the same tree before the call (observer sanity)
            let (pm, pd) = (comparable(&restrict(&memfs_ntree(&mem.verif_snapshot()), &root)), comparable(&disk_ntree(&root)));
            if pm != pd {
                rep.count("pre-states that the two observers see differently (skipped)", 1);
                if rep.inconclusive.len() < 3 {
                    rep.inconclusive(&format!("pre-state differs between the observers: {}", diff_maps(&pm, &pd).replace(&root, "<R>")));
                }
                continue;
            }
            rep.eval();
            set_case(&format!("diff:{}({}):returns→stalls", op.name(), arg_classes(state, &model, op)), &format!("{:?} on {:?}", op, state.nodes.keys().collect::<Vec<_>>()));
            let (rm, rs, tm, ts) = pairing.step(&mem, op);
            let ok = judge(&pairing, state, &model, op, &rm, &rs, &tm, &ts, &[], rep);
            // after a mutating call that both sides accepted, every path of the namespace is also observed through
            // the two APIs (what a user of either backend can see): a state that only shows through later calls -
            // left-over data, stale link information - is caught here and not only in multi-step histories
            if ok && !op.is_query() && !rs.is_err() && !follow_srclinks(state, &model, op) && in_domain_state(&unmap_ntree(&tm, &root)) {
                // (only paths that do not pass through a symlink in the new state: the domain clause)
                let post_v = unmap_ntree(&tm, &root);
                let universe: Vec<String> = obs_paths.iter().filter(|p| !through_link(&post_v, Some(p.as_str()))).map(|p| map_path(p, &root)).collect();
                let (om, os) = (api_observe_diffable(&mem, &universe, unpriv), api_observe_diffable(&Stdfs::new(), &universe, unpriv));
                rep.count("api_observations_after_mutators", 1);
                if om != os {
                    let d: Vec<String> = om.iter().zip(os.iter()).filter(|(a, b)| a != b).take(3).map(|(a, b)| format!("{} => memfs {} | stdfs {}", a.0, a.1, b.1)).collect();
                    let first = om.iter().zip(os.iter()).find(|(a, b)| a != b).map(|(a, _)| a.2.clone()).unwrap_or_default();
                    rep.violation(
                        &format!("diff:{}({}):same-observations-afterwards→{}-differs", op.name(), arg_classes(state, &model, op), first),
                        J::obj(vec![("uid", J::s(if unpriv { "uid1000" } else { "root" })), ("state", state.to_json()), ("call", J::s(op.describe())), ("differences", J::strs(&d.iter().map(|x| x.replace(&root, "<R>")).collect::<Vec<_>>()))]),
                    );
                }
            }
            let _ = std::env::set_current_dir(&root);
            if rep.want_sample() && matches!(op, Op::MoveP(..)) && !rs.is_err() && state.nodes.len() > 3 {
                rep.sample(J::obj(vec![("uid", J::s(if unpriv { "1000" } else { "0" })), ("state", state.to_json()), ("call", J::s(op.describe())), ("both_backends", J::s(norm_res(&rs, unpriv, op).replace(&root, "<R>")))]));
            }
        }
    }
    rep.count(if unpriv { "states_explored_uid1000" } else { "states_explored_root" }, n_states);

    // (b) multi-step histories in one sandbox
    let hpaths = namespace(&["a", "b", "c"], 2);
    let mut rng = ctx.rng("c02-hist");
    let n_hist = if ctx.thorough { 6000 } else { 200 } / ctx.shards + 1;
    let mut uidc = (ctx.shard as u64) << 40;
    for _ in 0..n_hist {
        wipe(&root);
        let _ = std::env::set_current_dir(&root);
        let mem = Memfs::new();
        let _ = mem.mkdir_p(&root);
        let _ = mem.set_cwd(&root);
        let mut shadow = Model::new(HOME);
        let mut hist: Vec<String> = vec![];
        let len = 40 + rng.below(80);
        for _ in 0..len {
            let mut op = random_op(&mut rng, &hpaths, &shadow.t.cwd.clone(), &mut uidc);
            // keep the unprivileged configuration inside what it is allowed to do
            if unpriv {
                op = match op {
                    Op::Chown(p, _, _) => Op::Chown(p, 1000, 1000),
                    Op::ChownB(p, o) => Op::ChownB(p, ChownO { uid: o.uid.map(|_| 1000), gid: o.gid.map(|_| 1000), ..o }),
                    Op::Chmod(p, m) => Op::Chmod(p, m | 0o700),
                    Op::MkdirM(p, m) => Op::MkdirM(p, m | 0o700),
                    Op::MkfileM(p, m) => Op::MkfileM(p, m | 0o600),
                    Op::ChmodB(p, mut o) => {
                        o.dirs = o.dirs.map(|m| m | 0o700);
                        o.files = o.files.map(|m| m | 0o600);
                        o.sym = o.sym.map(|s| if s.contains("u-") || s.contains("a-") || s.contains("=") { "f:go-w".to_string() } else { s });
                        Op::ChmodB(p, o)
                    },
                    Op::CopyB(a, b, m, f) => Op::CopyB(
                        a,
                        b,
                        match m {
                            CopyMode::All(x) => CopyMode::All(x | 0o700),
                            CopyMode::Dirs(x) => CopyMode::Dirs(x | 0o700),
                            CopyMode::Files(x) => CopyMode::Files(x | 0o600),
                            CopyMode::Then(a, b) => match b.effective() {
                                CopyMode::All(x) => CopyMode::Then(a, Box::new(CopyMode::All(x | 0o700))),
                                CopyMode::Dirs(x) => CopyMode::Then(a, Box::new(CopyMode::Dirs(x | 0o700))),
                                CopyMode::Files(x) => CopyMode::Then(a, Box::new(CopyMode::Files(x | 0o600))),
                                _ => CopyMode::None,
                            },
                            x => x,
                        },
                        f,
                    ),
                    o => o,
                };
            }
            // set-uid/set-gid/sticky bits are inherited / filtered by the kernel: not something Memfs models
            op = match op {
                Op::Chmod(p, m) => Op::Chmod(p, m & 0o777),
                Op::MkdirM(p, m) => Op::MkdirM(p, m & 0o777),
                Op::MkfileM(p, m) => Op::MkfileM(p, m & 0o777),
                o => o,
            };
            // changing into a link makes the process cwd the resolved directory
            if let Op::SetCwd(p) = &op {
                if let Some(Ok(a)) = shadow.abs(p) {
                    if matches!(shadow.t.nodes.get(&a), Some(NNode { kind: NKind::Link { .. }, .. })) {
                        continue;
                    }
                }
            }
            if matches!(op, Op::ConfigDir(_)) || op.paths().iter().any(|p| p.contains('~') || p.contains('$')) {
                continue; // HOME points into the virtual tree, not into the sandbox
            }
            if !in_domain_state(&shadow.t) || !shadow.t.is_real_dir(&shadow.t.cwd) {
                break; // the history left the domain: the step that did so has been judged
            }
            if !in_domain_call(&shadow.t, &shadow, &op) {
                continue;
            }
            rep.eval();
            set_case(&format!("diff:{}:returns→stalls", op.name()), &format!("{:?} {:?}", hist, op));
            let (rm, rs, tm, ts) = pairing.step(&mem, &op);
            hist.push(op.describe());
            let ok = judge(&pairing, &shadow.t.clone(), &shadow, &op, &rm, &rs, &tm, &ts, &hist, rep);
            if !ok || comparable(&tm) != comparable(&ts) {
                // (a tolerated difference after a multi-entry call that failed half way also ends the history:
                // the two sides are no longer in the same state)
                break;
            }
            // follow the real state in virtual coordinates
            shadow.t = unmap_ntree(&tm, &root);
            // the process cwd follows kernel semantics (it moves with a renamed directory and dangles once the
            // directory is removed, even if a new one gets the same name); Memfs keeps a path. Once the two no
            // longer name the same directory, relative paths mean different things: the history ends
            let want = if shadow.t.cwd == "/" { root.clone() } else { format!("{}{}", root, shadow.t.cwd) };
            match std::env::current_dir() {
                Ok(p) if ps(&p) == want => {},
                _ => {
                    rep.count("histories_ended:process-cwd-moved-or-removed", 1);
                    break;
                },
            }
        }
        rep.count("histories", 1);
    }
    let _ = std::env::set_current_dir("/");
    drop(sb);
}
