// C04: Memfs operations are atomic and deadlock-free under concurrent use
use std::{
    collections::{HashMap, HashSet},
    process::Command,
    sync::{
        atomic::{AtomicBool, AtomicU64, Ordering},
        Arc,
    },
};

use rivia::prelude::*;

use super::Prop;
use crate::{fsops::*, infra::*, sched::*};

pub fn props() -> Vec<Prop> {
    vec![Prop {
        id: "C04",
        run: c04,
        tools: Some(miri_step),
        rule: "(1) controlled scheduler over the guard hook: real threads run the real Memfs, one runnable at a time, yield points at the start of every call and before every guard acquisition made while holding no guard; every schedule of every small program is enumerated depth-first by re-execution (quick: all 2-thread x 1-call programs over the ~45-call alphabet + seeded 2x2 / 3x1 / 2x3 programs; thorough: + 3x2 programs and more seeds; schedule cap 4000 per program, a cap hit is inconclusive). Each execution is checked for linearizability against SEQUENTIAL MEMFS ITSELF (some order of the calls respecting program order and real-time precedence gives every call the same result and the same final snapshot), append exactly-once (unique tokens), nested guard acquisition, panics / poisoned lock, and the C03 walker at quiescence. (2) free-running stress: the same programs and 8-thread mixes released by a barrier on 16 cores, stamped by a global atomic clock, same checks, plus a wait-state monitor fed by the guard events (all threads inside before-acquire..release with no guard event for 30 s = deadlock certificate); the evidence counts how many call pairs really overlapped. (3) Miri (-Zmiri-many-seeds) on a hook-free executor: data races, deadlocks, UB under its own randomised preemption. distinct_nontrivial = distinct (program shape, operation multiset, linearizable?) tuples + distinct schedules. Later additions to the alphabet: relative-path calls next to the calls that move the cwd; children for the directory that remove() takes away. An execution in which a multi-entry call failed half way (other than DoesNotExist) is not judged for linearizability (counted). Metadata queries racing against a move that replaces the file by one with other ids and another mode; handle opens that always fail; directed handle life-cycle programs (a write()/append() handle against pairs of calls that remove its file or put a link, a directory or another file in its place) - executions with an open handle are judged on returning, panics, poisoning and integrity, not on linearizability; a free-running round of append handles dropped unflushed under real lock contention (every record exactly once).",
        assumptions: &[
            "guard-boundary granularity is complete as long as all shared state stays behind read_guard/write_guard (cross-checked by Miri's race detector)",
            "the sequential specification is Memfs itself, so C04 does not depend on the reference model of C01",
        ],
        shards_quick: 8,
        shards_thorough: 16,
        budget_quick_s: 420,
        budget_thorough_s: 2400,
        min_evals: 5_000,
        exhaustive_capable: true,
    }]
}

fn setup(m: &Memfs) {
    let _ = m.mkdir_p("/d/s");
    let _ = m.write_all("/d/f", b"0;");
    let _ = m.mkdir_p("/e");
    // two files that differ in both ids and in the mode: whichever of them is at /d/f, a query sees one of them whole
    let _ = m.chown("/d/f", 7, 7);
    let _ = m.write_all("/h", b"h;");
    let _ = m.chown("/h", 8, 8);
    let _ = m.chmod("/h", 0o500);
}

static TOKEN: AtomicU64 = AtomicU64::new(1);
fn tok() -> Vec<u8> {
    format!("<{}>", TOKEN.fetch_add(1, Ordering::SeqCst)).into_bytes()
}

/// the single-step alphabet of the statement on a tiny shared namespace (so that calls conflict)
fn alphabet() -> Vec<Op> {
    let s = |x: &str| x.to_string();
    vec![
        Op::MkdirP(s("/d/x/y")),
        Op::MkdirP(s("/e/y")),
        Op::MkdirM(s("/d/m"), 0o700),
        Op::Mkfile(s("/d/g")),
        Op::Mkfile(s("/d/x/g")),
        Op::Mkfile(s("/d/s/f")), // a child for the directory that remove(/d/s) takes away
        Op::MkdirP(s("/d/s/k")),
        Op::Remove(s("/d/f")),
        Op::Remove(s("/d/s")),
        Op::Remove(s("/e")),
        Op::RemoveAll(s("/d")),
        Op::RemoveAll(s("/d/s")),
        Op::MoveP(s("/d/f"), s("/d/g")),
        Op::MoveP(s("/d"), s("/e")),
        Op::MoveP(s("/d/s"), s("/e")),
        Op::Copy(s("/d/f"), s("/d/g")),
        Op::Copy(s("/d"), s("/e/c")),
        Op::Symlink(s("/d/l"), s("/d/f")),
        Op::Symlink(s("/e/l"), s("/d")),
        Op::SetCwd(s("/d")),
        Op::SetCwd(s("/e")),
        // relative paths: resolved against the shared cwd, which other calls move (the resolution has to happen
        // inside the same critical section as the effect)
        Op::SetCwd(s("d")),
        Op::SetCwd(s("..")),
        Op::Mkfile(s("r")),
        Op::MkdirP(s("x/y")),
        Op::MkdirP(s("d")), // exists below / already: nothing to create from there, something from /d or /e
        Op::Remove(s("s")),
        Op::ReadAll(s("f")),
        Op::AppendAll(s("/d/f"), vec![]),  // payload replaced by a unique token
        Op::AppendAll(s("/d/g"), vec![]),
        Op::AppendLine(s("/d/f"), s("")),  // payload replaced by a unique token
        Op::WriteAll(s("/d/f"), vec![]),   // payload replaced by a unique token
        Op::WriteAll(s("/d/g"), vec![]),
        Op::WriteLines(s("/d/f"), vec![]), // payload replaced by a unique token
        Op::ReadAll(s("/d/f")),
        Op::ReadAll(s("/d/g")),
        Op::ReadLines(s("/d/f")),
        Op::ReadBytes(s("/d/f")),
        Op::Exists(s("/d/f")),
        Op::Exists(s("/d/g")),
        Op::IsDir(s("/d")),
        Op::IsFile(s("/d/g")),
        Op::IsSymlink(s("/d/l")),
        Op::Mode(s("/d/f")),
        Op::Entry(s("/d")),
        Op::Cwd,
        Op::Paths(s("/d")),
        Op::Dirs(s("/")),
        Op::Files(s("/d")),
        Op::AllPaths(s("/")),
        Op::AllDirs(s("/d")),
        Op::AllFiles(s("/d")),
        Op::Entries(s("/d")),
        Op::Readlink(s("/d/l")),
        // handles whose opening fails whatever the other threads do (the root is never a file, nothing ever creates
        // /nope): one critical section, an error, no effect - and the guard is free again afterwards
        Op::AppendH(s("/"), b"h".to_vec()),
        Op::AppendH(s("/nope/x"), b"h".to_vec()),
        Op::WriteH(s("/"), b"h".to_vec()),
        Op::WriteH(s("/nope/x"), b"h".to_vec()),
        // metadata queries: the owner is one read of both ids, the predicates derived from the mode one read of it.
        // (chmod / chown themselves are not among the single-step operations of the statement - they snapshot the
        // entries under one guard and apply under another - so the owner and mode changes the queries race against
        // come from a move that replaces /d/f by the differently owned, differently moded /h of the setup (kept outside /d so that the calls that walk /d have no more to walk than before))
        Op::MoveP(s("/h"), s("/d/f")),
        Op::Copy(s("/h"), s("/d/f")),
        Op::Owner(s("/d/f")),
        Op::Owner(s("/d/s")),
        Op::Uid(s("/d/f")),
        Op::Gid(s("/d/f")),
        Op::IsExec(s("/d/f")),
        Op::IsReadonly(s("/d/f")),
        Op::IsSymlinkDir(s("/e/l")),
        Op::IsSymlinkFile(s("/d/l")),
    ]
}
fn fresh_payload(op: &Op) -> Op {
    match op {
        Op::AppendAll(p, _) => Op::AppendAll(p.clone(), tok()),
        Op::AppendLine(p, _) => Op::AppendLine(p.clone(), String::from_utf8(tok()).unwrap()),
        Op::WriteAll(p, _) => Op::WriteAll(p.clone(), tok()),
        Op::WriteLines(p, _) => Op::WriteLines(p.clone(), vec![String::from_utf8(tok()).unwrap()]),
        o => o.clone(),
    }
}

fn snapshot_key(s: &Snapshot) -> String {
    format!("{:?}", memfs_ntree(s))
}

/// Is there an order of the calls, consistent with program order and real-time precedence, that sequential
/// Memfs reproduces (every result and the final state)?
fn linearizable(calls: &[CallRec], final_key: &str, cache: &mut HashMap<String, bool>) -> bool {
    let n = calls.len();
    // cache key: results + precedence relation + final state
    let mut key = String::new();
    for c in calls {
        key.push_str(&format!("{}.{}:{:?}={:?};", c.thread, c.index, c.op, c.res));
    }
    for a in calls {
        for b in calls {
            if a.end < b.start {
                key.push_str(&format!("{}.{}<{}.{},", a.thread, a.index, b.thread, b.index));
            }
        }
    }
    key.push_str(final_key);
    if let Some(v) = cache.get(&key) {
        return *v;
    }
    // must_precede[i] = set of j that have to come before i
    let mut before: Vec<Vec<usize>> = vec![vec![]; n];
    for i in 0..n {
        for j in 0..n {
            if i != j && ((calls[j].thread == calls[i].thread && calls[j].index < calls[i].index) || calls[j].end < calls[i].start) {
                before[i].push(j);
            }
        }
    }
    fn rec(calls: &[CallRec], before: &[Vec<usize>], order: &mut Vec<usize>, used: &mut Vec<bool>, final_key: &str, budget: &mut usize) -> bool {
        if *budget == 0 {
            return false;
        }
        if order.len() == calls.len() {
            *budget -= 1;
            let m = Memfs::new();
            setup(&m);
            for &i in order.iter() {
                if exec(&m, &calls[i].op) != calls[i].res {
                    return false;
                }
            }
            return snapshot_key(&m.verif_snapshot()) == final_key;
        }
        for i in 0..calls.len() {
            if used[i] || before[i].iter().any(|j| !used[*j]) {
                continue;
            }
            // prune: replay the prefix and compare the result of the newly placed call
            used[i] = true;
            order.push(i);
            let ok_prefix = {
                let m = Memfs::new();
                setup(&m);
                let mut ok = true;
                for &k in order.iter() {
                    if exec(&m, &calls[k].op) != calls[k].res {
                        ok = false;
                        break;
                    }
                }
                ok
            };
            if ok_prefix && rec(calls, before, order, used, final_key, budget) {
                return true;
            }
            order.pop();
            used[i] = false;
        }
        false
    }
    let mut budget = 20_000;
    let r = rec(calls, &before, &mut vec![], &mut vec![false; n], final_key, &mut budget);
    cache.insert(key, r);
    r
}

fn shape(program: &[Vec<Op>]) -> String {
    program.iter().map(|t| t.len().to_string()).collect::<Vec<_>>().join("x")
}
fn op_names(program: &[Vec<Op>]) -> String {
    let mut v: Vec<&str> = program.iter().flat_map(|t| t.iter().map(|o| o.name())).collect();
    v.sort();
    v.join("+")
}
fn op_pair_sig(program: &[Vec<Op>]) -> String {
    // signature part: the operation names per thread, sorted by thread content so that symmetric programs coincide
    let mut per: Vec<String> = program.iter().map(|t| t.iter().map(|o| o.name()).collect::<Vec<_>>().join(",")).collect();
    per.sort();
    per.join("‖")
}

fn append_tokens(program: &[Vec<Op>]) -> Vec<(String, Vec<u8>)> {
    program
        .iter()
        .flat_map(|t| t.iter())
        .filter_map(|o| match o {
            Op::AppendAll(p, d) => Some((p.clone(), d.clone())),
            Op::AppendLine(p, l) => Some((p.clone(), l.clone().into_bytes())),
            _ => None,
        })
        .collect()
}
fn disturbs(program: &[Vec<Op>], path: &str) -> bool {
    // the file is rewritten / removed / moved / replaced by somebody in the same program
    program.iter().flat_map(|t| t.iter()).any(|o| match o {
        Op::WriteAll(p, _) | Op::WriteLines(p, _) | Op::Remove(p) | Op::RemoveAll(p) => path == p || is_under(path, p),
        Op::MoveP(a, b) | Op::Copy(a, b) => path == a || is_under(path, a) || path == b || is_under(path, b),
        _ => false,
    })
}

struct Checker {
    cache: HashMap<String, bool>,
}

impl Checker {
    /// all checks on one finished execution; returns the violations as (signature suffix, detail)
    fn check(&mut self, program: &[Vec<Op>], calls: &[CallRec], snap: &Snapshot, nested: &[String], mode: &str, rep: &mut Report) -> bool {
        let ops = op_pair_sig(program);
        let mut ok = true;
        let wit = |detail: String, calls: &[CallRec]| {
            J::obj(vec![
                ("mode", J::s(mode)),
                ("setup", J::s("mkdir_p(/d/s); write_all(/d/f, \"0;\"); mkdir_p(/e); chown(/d/f, 7, 7); write_all(/h, \"h;\"); chown(/h, 8, 8); chmod(/h, 0o500)")),
                ("program", J::Arr(program.iter().map(|t| J::Arr(t.iter().map(|o| J::s(o.describe())).collect())).collect())),
                ("observed", J::Arr(calls.iter().map(|c| J::s(format!("T{}.{} [{}..{}] {} -> {}", c.thread, c.index, c.start, c.end, c.op.describe(), c.res.short()))).collect())),
                ("final_state", memfs_ntree(snap).to_json()),
                ("detail", J::s(detail)),
            ])
        };
        for c in calls {
            if let Res::Panic(m) = &c.res {
                ok = false;
                rep.violation(&format!("conc:{}:returns→panic({})", ops, c.op.name()), wit(m.clone(), calls));
            }
        }
        for n in nested {
            ok = false;
            rep.violation(&format!("conc:{}:no-nested-guard-acquisition→{}", ops, n), wit(n.clone(), calls));
        }
        if snap.poisoned {
            ok = false;
            rep.violation(&format!("conc:{}:lock-not-poisoned→poisoned", ops), wit("poisoned".into(), calls));
        }
        for (id, d) in check_invariants(snap) {
            ok = false;
            rep.violation(&format!("conc:{}:tree-integrity-at-quiescence→{}", ops, id), wit(d, calls));
            break;
        }
        // append exactly-once
        let tree = memfs_ntree(snap);
        for (p, token) in append_tokens(program) {
            if disturbs(program, &p) {
                continue;
            }
            let acked = calls.iter().any(|c| matches!(&c.op, Op::AppendAll(q, d) if *q == p && *d == token) && c.res == Res::Unit)
                || calls.iter().any(|c| matches!(&c.op, Op::AppendLine(q, l) if *q == p && l.as_bytes() == &token[..]) && c.res == Res::Unit);
            if !acked {
                continue;
            }
            let content = match tree.nodes.get(&p) {
                Some(NNode { kind: NKind::File(d), .. }) => d.clone(),
                _ => vec![],
            };
            let count = content.windows(token.len()).filter(|w| *w == &token[..]).count();
            rep.count("append_tokens_checked", 1);
            if count != 1 {
                ok = false;
                rep.violation(
                    &format!("conc:{}:every-acknowledged-append-present-exactly-once→{}", ops, if count == 0 { "lost" } else { "duplicated" }),
                    wit(format!("token {:?} occurs {} times in {:?}", String::from_utf8_lossy(&token), count, String::from_utf8_lossy(&content)), calls),
                );
            }
        }
        // linearizability against sequential Memfs. A call over several entries (copy, remove_all, recursive
        // chmod/chown) that fails half way stops where its unordered traversal was: the sequential specification
        // is then not a function of the order of calls, and replaying it cannot decide anything
        let partial = calls.iter().any(|c| matches!(c.op, Op::Copy(..) | Op::CopyB(..) | Op::RemoveAll(..) | Op::ChmodB(..) | Op::ChownB(..)) && matches!(&c.res, Res::Err(k) if k != "DoesNotExist"));
        if partial {
            rep.count("linearizability_not_judged:multi-entry-call-failed-half-way", 1);
        }
        // a handle that could be opened is several calls (open, flush, drop) under separate guards by design: such an
        // execution is judged on everything else (every call returns, no panic, no poisoned lock, integrity)
        let handles = calls.iter().any(|c| matches!(&c.op, Op::WriteH(p, _) | Op::AppendH(p, _) if p != "/" && p != "/nope/x"));
        if handles {
            rep.count("linearizability_not_judged:execution-with-an-open-handle", 1);
        }
        let partial = partial || handles;
        if ok && !partial && !linearizable(calls, &snapshot_key(snap), &mut self.cache) {
            ok = false;
            rep.violation(&format!("conc:{}:linearizable→no-sequential-order-explains-it", ops), wit("no order of the calls consistent with program order and real-time precedence reproduces these results and this final state on a sequential Memfs".into(), calls));
        }
        ok
    }
}

fn explore_program(program: &[Vec<Op>], chk: &mut Checker, rep: &mut Report, cap: usize) {
    let mut prefix: Vec<usize> = vec![];
    let mut n = 0;
    let mut all_ok = true;
    let mut schedules: HashSet<Vec<usize>> = HashSet::new();
    loop {
        let mem = Arc::new(Memfs::new());
        setup(&mem);
        set_case(&format!("conc:{}:every-call-returns→deadlock-or-hang", op_pair_sig(program)), &format!("{:?} schedule prefix {:?}", program, prefix));
        let ex = run_controlled(mem, program, &prefix);
        rep.eval();
        n += 1;
        rep.count("guard_events_observed", ex.guard_events);
        let picks: Vec<usize> = ex.choices.iter().map(|c| c.1).collect();
        schedules.insert(picks);
        let ok = chk.check(program, &ex.calls, &ex.final_snapshot, &ex.nested, "controlled scheduler", rep);
        all_ok &= ok;
        if rep.want_sample() && ok && program.iter().map(|t| t.len()).sum::<usize>() >= 3 && n == 2 {
            rep.sample(J::obj(vec![
                ("program", J::Arr(program.iter().map(|t| J::Arr(t.iter().map(|o| J::s(o.describe())).collect())).collect())),
                ("schedule", J::s(format!("{:?}", ex.choices))),
                ("observed", J::Arr(ex.calls.iter().map(|c| J::s(format!("T{}.{} [{}..{}] {} -> {}", c.thread, c.index, c.start, c.end, c.op.name(), c.res.class()))).collect())),
            ]));
        }
        match next_prefix(&ex.choices) {
            Some(p) => prefix = p,
            None => break,
        }
        if n >= cap {
            rep.inconclusive(&format!("schedule cap of {} reached for a {} program", cap, shape(program)));
            rep.exhaustive = false;
            break;
        }
    }
    rep.count("schedules_explored", schedules.len() as u64);
    rep.count("programs_explored", 1);
    rep.key_str(&format!("{}|{}|{}", shape(program), op_names(program), all_ok));
    for s in schedules {
        rep.key(hash64(&format!("{}|{:?}|{:?}", op_names(program), program, s)));
    }
}

/// Handles that are DROPPED with unflushed bytes while other threads keep the lock busy: the drop is the write-back
/// ("write/append handles write back under a fresh write guard at flush/drop"), so every record written through an
/// append handle is in the file exactly once afterwards - a drop that does not wait for the lock loses records. Plain
/// threads (the guard hook ignores them), real contention, a few rounds.
fn handle_drop_stress(ctx: &Ctx, rep: &mut Report) {
    let rounds = if ctx.thorough { 12 } else { 3 };
    for round in 0..rounds {
        rep.eval();
        let mem = Memfs::new();
        let _ = mem.mkdir_p("/hd");
        let _ = mem.write_all("/hd/log", b"");
        let (appenders, per) = (4usize, 120usize);
        set_case("conc:handle-drop-stress:every-call-returns→deadlock-or-hang", &format!("round {}", round));
        let busy = std::sync::atomic::AtomicBool::new(true);
        std::thread::scope(|sc| {
            for w in 0..6 {
                let (m, busy) = (&mem, &busy);
                sc.spawn(move || {
                    let block = vec![b'w'; 64 * 1024];
                    let path = format!("/hd/busy{}", w);
                    while busy.load(Ordering::Relaxed) {
                        let _ = m.write_all(&path, &block);
                        let _ = m.read_all(&path);
                    }
                });
            }
            let hs: Vec<_> = (0..appenders)
                .map(|a| {
                    let m = &mem;
                    sc.spawn(move || {
                        for i in 0..per {
                            if let Ok(mut h) = m.append("/hd/log") {
                                use std::io::Write;
                                let _ = h.write_all(format!("<r{}-{}-{}>", round, a, i).as_bytes());
                                std::thread::yield_now();
                                drop(h); // no flush: the drop delivers
                            }
                        }
                    })
                })
                .collect();
            for h in hs {
                let _ = h.join();
            }
            busy.store(false, Ordering::Relaxed);
        });
        let content = match exec(&mem, &Op::ReadBytes("/hd/log".into())) {
            Res::Bytes(b) => String::from_utf8_lossy(&b).to_string(),
            other => format!("{:?}", other.short()),
        };
        let (mut lost, mut dup) = (0, 0);
        for a in 0..appenders {
            for i in 0..per {
                match content.matches(&format!("<r{}-{}-{}>", round, a, i)).count() {
                    0 => lost += 1,
                    1 => {},
                    _ => dup += 1,
                }
            }
        }
        rep.count("records_written_through_dropped_handles", (appenders * per) as u64);
        rep.key_str("stress|handle-drop");
        let snap = mem.verif_snapshot();
        if lost > 0 || dup > 0 {
            rep.violation(
                &format!("conc:handle-drop-stress:every-record-of-a-dropped-append-handle-present-exactly-once→{}", if lost > 0 { "lost" } else { "duplicated" }),
                J::obj(vec![("records", J::Int((appenders * per) as i64)), ("lost", J::Int(lost)), ("duplicated", J::Int(dup)), ("workload", J::s("4 threads x 120 append handles (write, drop without flush) on one file, 6 threads rewriting 64 KiB files"))]),
            );
        }
        if snap.poisoned || !check_invariants(&snap).is_empty() {
            rep.violation("conc:handle-drop-stress:tree-integrity-at-quiescence→broken", J::s(format!("{:?}", check_invariants(&snap))));
        }
    }
}

fn stress(ctx: &Ctx, rep: &mut Report, chk: &mut Checker) {
    handle_drop_stress(ctx, rep);
    let alpha = alphabet();
    let mut rng = ctx.rng("c04-stress");
    let epochs = if ctx.thorough { 60_000 } else { 3_000 } / ctx.shards;
    let clock = AtomicU64::new(1);
    // wait-state monitor: every program thread inside before-acquire..release and no guard event for 5 s
    let stop = Arc::new(AtomicBool::new(false));
    let stuck = Arc::new(AtomicBool::new(false));
    let threads_now = Arc::new(AtomicU64::new(0));
    {
        let (stop, stuck, threads_now) = (stop.clone(), stuck.clone(), threads_now.clone());
        std::thread::spawn(move || {
            let mut last = FREE_EVENTS.load(Ordering::Relaxed);
            let mut since = std::time::Instant::now();
            while !stop.load(Ordering::Relaxed) {
                std::thread::sleep(std::time::Duration::from_millis(200));
                let now = FREE_EVENTS.load(Ordering::Relaxed);
                let n = threads_now.load(Ordering::Relaxed) as i64;
                if now != last || n == 0 || IN_SECTION.load(Ordering::SeqCst) < n {
                    last = now;
                    since = std::time::Instant::now();
                } else if since.elapsed().as_secs() >= 30 {
                    stuck.store(true, Ordering::SeqCst);
                    crate::infra::write_stall_and_exit("deadlock");
                }
            }
        });
    }
    let mut overlapping_pairs = 0u64;
    let mut overlap_ops: HashSet<String> = HashSet::new();
    for e in 0..epochs {
        let nthreads = if e % 10 == 9 { 8 } else { 2 + rng.below(2) };
        let ncalls = if nthreads == 8 { 3 } else { 1 + rng.below(3) };
        let program: Vec<Vec<Op>> = (0..nthreads).map(|_| (0..ncalls).map(|_| fresh_payload(&alpha[rng.below(alpha.len())])).collect()).collect();
        let mem = Arc::new(Memfs::new());
        setup(&mem);
        set_case(&format!("conc:{}:every-call-returns→deadlock-or-hang", op_pair_sig(&program)), &format!("{:?}", program));
        threads_now.store(nthreads as u64, Ordering::Relaxed);
        let calls = run_free(mem.clone(), &program, &clock);
        threads_now.store(0, Ordering::Relaxed);
        rep.eval();
        for a in &calls {
            for b in &calls {
                if a.thread < b.thread && a.start < b.end && b.start < a.end {
                    overlapping_pairs += 1;
                    overlap_ops.insert(format!("{}‖{}", a.op.name().min(b.op.name()), a.op.name().max(b.op.name())));
                }
            }
        }
        let snap = mem.verif_snapshot();
        let total: usize = program.iter().map(|t| t.len()).sum();
        if total <= 7 {
            chk.check(&program, &calls, &snap, &[], "free-running stress", rep);
        } else {
            // too many calls for the order search: integrity, panics and exactly-once only
            let mut ok = true;
            for c in &calls {
                if let Res::Panic(m) = &c.res {
                    ok = false;
                    rep.violation(&format!("conc:stress-mix:returns→panic({})", c.op.name()), J::s(m));
                }
            }
            if snap.poisoned || !check_invariants(&snap).is_empty() {
                ok = false;
                rep.violation("conc:stress-mix:tree-integrity-at-quiescence→broken", J::s(format!("{:?}", check_invariants(&snap))));
            }
            let tree = memfs_ntree(&snap);
            for (p, token) in append_tokens(&program) {
                if disturbs(&program, &p) {
                    continue;
                }
                let acked = calls.iter().any(|c| match &c.op {
                    Op::AppendAll(q, d) => *q == p && *d == token && c.res == Res::Unit,
                    Op::AppendLine(q, l) => *q == p && l.as_bytes() == &token[..] && c.res == Res::Unit,
                    _ => false,
                });
                if !acked {
                    continue;
                }
                let content = match tree.nodes.get(&p) {
                    Some(NNode { kind: NKind::File(d), .. }) => d.clone(),
                    _ => vec![],
                };
                let count = content.windows(token.len()).filter(|w| *w == &token[..]).count();
                rep.count("append_tokens_checked", 1);
                if count != 1 {
                    ok = false;
                    rep.violation(&format!("conc:stress-mix:every-acknowledged-append-present-exactly-once→{}", if count == 0 { "lost" } else { "duplicated" }), J::s(format!("{:?}", program)));
                }
            }
            let _ = ok;
        }
        rep.key_str(&format!("stress|{}|{}", shape(&program), op_names(&program)));
    }
    stop.store(true, Ordering::Relaxed);
    rep.count("stress_epochs", epochs as u64);
    rep.count("stress_overlapping_call_pairs", overlapping_pairs);
    rep.count("stress_distinct_overlapping_operation_pairs(summed over shards)", overlap_ops.len() as u64);
    rep.count("stress_nested_acquisitions_seen", FREE_NESTED.load(Ordering::SeqCst) as u64);
    if FREE_NESTED.load(Ordering::SeqCst) > 0 {
        rep.violation("conc:stress:no-nested-guard-acquisition→nested", J::Int(FREE_NESTED.load(Ordering::SeqCst) as i64));
    }
    if overlapping_pairs == 0 {
        rep.inconclusive("the stress run produced no overlapping call pair");
    }
}

/// C03's "at quiescence after every explored concurrent schedule": small programs under the controlled scheduler
/// (every schedule) and free-running mixes, judged only by the C03 walker; used by the C03 check
pub fn quiescence_integrity(ctx: &Ctx, rep: &mut Report) {
    install_hook();
    let alpha: Vec<Op> = alphabet().into_iter().filter(|o| !o.is_query()).collect();
    let mut rng = ctx.rng("c03-concurrent");
    let n = if ctx.thorough { 6000 } else { 300 } / ctx.shards + 1;
    let clock = AtomicU64::new(1);
    for k in 0..n {
        let program: Vec<Vec<Op>> = (0..2 + k % 2).map(|_| (0..1 + rng.below(2)).map(|_| fresh_payload(&alpha[rng.below(alpha.len())])).collect()).collect();
        let mut prefix: Vec<usize> = vec![];
        let mut runs = 0;
        loop {
            let mem = Arc::new(Memfs::new());
            setup(&mem);
            set_case(&format!("inv:quiescence({}):every-call-returns→deadlock-or-hang", op_pair_sig(&program)), &format!("{:?}", program));
            let ex = run_controlled(mem, &program, &prefix);
            rep.eval();
            rep.count("invariant_walks", 1);
            rep.count("concurrent_schedules_walked", 1);
            for (id, d) in check_invariants(&ex.final_snapshot) {
                rep.violation(
                    &format!("inv:{}(at quiescence after {})", id, op_pair_sig(&program)),
                    J::obj(vec![("program", J::s(format!("{:?}", program))), ("schedule", J::s(format!("{:?}", ex.choices))), ("detail", J::s(d)), ("state", memfs_ntree(&ex.final_snapshot).to_json())]),
                );
                break;
            }
            runs += 1;
            match next_prefix(&ex.choices) {
                Some(p) if runs < 400 => prefix = p,
                _ => break,
            }
        }
        rep.key_str(&format!("quiescence|{}|{}", shape(&program), op_names(&program)));
        // the same program free-running
        let mem = Arc::new(Memfs::new());
        setup(&mem);
        let _ = run_free(mem.clone(), &program, &clock);
        rep.eval();
        let snap = mem.verif_snapshot();
        for (id, d) in check_invariants(&snap) {
            rep.violation(&format!("inv:{}(at quiescence after free-running {})", id, op_pair_sig(&program)), J::obj(vec![("program", J::s(format!("{:?}", program))), ("detail", J::s(d))]));
            break;
        }
    }
}

fn c04(ctx: &Ctx, rep: &mut Report) {
    install_hook();
    // a worker that is killed while an execution is under way (a panic inside a destructor that runs during unwinding
    // aborts the process) leaves a crash record naming the program, reported like a deadlock
    CRASH_ATTRIBUTION.store(true, Ordering::SeqCst);
    let alpha = alphabet();
    let mut chk = Checker { cache: HashMap::new() };
    let cap = 4000;
    // (a) every 2-thread x 1-call program
    let mut idx = 0u64;
    for a in &alpha {
        for b in &alpha {
            idx += 1;
            if !ctx.mine(idx) {
                continue;
            }
            let program = vec![vec![fresh_payload(a)], vec![fresh_payload(b)]];
            explore_program(&program, &mut chk, rep, cap);
        }
    }
    // (a2) the life cycle of a handle against calls that take its file away or put something else in its place
    // between open, flush and drop (removed, replaced by a link / a directory / another file, the directory gone)
    for p in ["/d/f", "/d/g"] {
        let s = |x: &str| x.to_string();
        let other = if p == "/d/f" { "/d/g" } else { "/d/f" };
        let pool = vec![Op::Remove(s(p)), Op::Symlink(s(p), s(other)), Op::Symlink(s(p), s("/d/missing")), Op::MkdirP(s(p)), Op::Mkfile(s(p)), Op::MoveP(s("/h"), s(p)), Op::RemoveAll(s("/d"))];
        for h in [Op::WriteH(s(p), vec![]), Op::AppendH(s(p), vec![])] {
            for x in &pool {
                for y in &pool {
                    idx += 1;
                    if !ctx.mine(idx) {
                        continue;
                    }
                    let program = vec![vec![match &h {
                        Op::WriteH(q, _) => Op::WriteH(q.clone(), tok()),
                        Op::AppendH(q, _) => Op::AppendH(q.clone(), tok()),
                        o => o.clone(),
                    }], vec![x.clone(), y.clone()]];
                    explore_program(&program, &mut chk, rep, cap);
                    rep.count("handle_life_cycle_programs", 1);
                }
            }
        }
    }
    // (a3) the same shared instance reached through the enum wrapper (`Vfs::Memfs`): a call through it is the call on
    // the instance, in one critical section - every pair of a call that moves the cwd with a relative-path call
    VIA_WRAPPER.store(true, Ordering::SeqCst);
    for a in alpha.iter().filter(|o| matches!(o, Op::SetCwd(_))) {
        for b in alpha.iter().filter(|o| !matches!(o, Op::SetCwd(_)) && o.paths().iter().any(|p| !p.starts_with('/'))) {
            idx += 1;
            if !ctx.mine(idx) {
                continue;
            }
            for program in [vec![vec![fresh_payload(a)], vec![fresh_payload(b)]], vec![vec![fresh_payload(b)], vec![fresh_payload(a), fresh_payload(b)]]] {
                explore_program(&program, &mut chk, rep, cap);
                rep.count("programs_through_the_enum_wrapper", 1);
            }
        }
    }
    VIA_WRAPPER.store(false, Ordering::SeqCst);
    // (b) seeded larger programs
    let mut rng = ctx.rng("c04-programs");
    let n = if ctx.thorough { 40_000 } else { 1_600 } / ctx.shards;
    for k in 0..n {
        let shape: &[usize] = match k % if ctx.thorough { 6 } else { 4 } {
            0 => &[2, 2],
            1 => &[1, 1, 1],
            2 => &[3, 2],
            3 => &[2, 1],
            4 => &[2, 2, 2],
            _ => &[3, 3],
        };
        // bias towards conflicting calls: pick a small pool per program
        let pool: Vec<&Op> = (0..4).map(|_| &alpha[rng.below(alpha.len())]).collect();
        let program: Vec<Vec<Op>> = shape.iter().map(|n| (0..*n).map(|_| fresh_payload(if rng.chance(2, 3) { pool[rng.below(pool.len())] } else { &alpha[rng.below(alpha.len())] })).collect()).collect();
        explore_program(&program, &mut chk, rep, cap);
    }
    // (c) free-running stress
    stress(ctx, rep, &mut chk);
}

/// Miri on a hook-free executor (bin miri_c04): data races, deadlocks, UB under Miri's own scheduler
fn miri_step(ctx: &Ctx, rep: &mut Report) -> Vec<J> {
    let seeds = if ctx.thorough { 256 } else { 32 };
    let harness = format!("{}/harness", crate::verif_dir());
    let log = format!("{}/runs/C04/miri.log", crate::verif_dir());
    let ncpu = std::thread::available_parallelism().map(|x| x.get()).unwrap_or(4);
    let t0 = std::time::Instant::now();
    let out = Command::new("cargo")
        .current_dir(&harness)
        .args(["+nightly", "miri", "run", "--offline", "--bin", "miri_c04", "--quiet"])
        .env("MIRIFLAGS", format!("-Zmiri-many-seeds=0..{} -Zmiri-many-seeds-keep-going -Zmiri-disable-isolation", seeds))
        .env("RUSTFLAGS", "")
        .env("CARGO_NET_OFFLINE", "true")
        .env("CARGO_TARGET_DIR", format!("{}/target/miri", harness))
        .env("CARGO_BUILD_JOBS", ncpu.to_string())
        .output();
    let mut notes = vec![];
    match out {
        Err(e) => rep.inconclusive(&format!("cargo miri could not be started: {}", e)),
        Ok(o) => {
            let text = format!("{}\n{}", String::from_utf8_lossy(&o.stdout), String::from_utf8_lossy(&o.stderr));
            let _ = std::fs::write(&log, &text);
            let ok_runs = text.matches("MIRI-C04-OK").count();
            let lost = text.matches("MIRI-C04-LOST-APPEND").count();
            let races = text.matches("Data race detected").count();
            let deadlocks = text.matches("deadlock").count();
            let ub = text.matches("Undefined Behavior").count();
            rep.evals += ok_runs as u64 + lost as u64;
            rep.count("miri_seed_runs_completed", ok_runs as u64);
            rep.key_str("miri|append‖append");
            rep.key_str("miri|mixed");
            if races > 0 {
                rep.violation("conc:miri:no-data-race→data-race", J::s(text.lines().filter(|l| l.contains("Data race")).take(3).collect::<Vec<_>>().join(" | ")));
            }
            if deadlocks > 0 {
                rep.violation("conc:miri:every-call-returns→deadlock", J::s(text.lines().filter(|l| l.contains("deadlock")).take(3).collect::<Vec<_>>().join(" | ")));
            }
            if ub > races {
                rep.violation("conc:miri:no-undefined-behaviour→UB", J::s(text.lines().filter(|l| l.contains("Undefined Behavior")).take(3).collect::<Vec<_>>().join(" | ")));
            }
            if lost > 0 {
                rep.violation("conc:miri:every-acknowledged-append-present-exactly-once→lost", J::s(text.lines().filter(|l| l.contains("MIRI-C04-LOST-APPEND")).take(3).collect::<Vec<_>>().join(" | ")));
            }
            if ok_runs == 0 && lost == 0 && races == 0 && deadlocks == 0 && ub == 0 {
                rep.inconclusive(&format!("miri produced no completed run (exit {:?}); see runs/C04/miri.log", o.status.code()));
            }
            notes.push(J::obj(vec![
                ("tool", J::s("cargo +nightly miri run --bin miri_c04 (-Zmiri-many-seeds)")),
                ("seeds", J::Int(seeds as i64)),
                ("completed_seed_runs", J::Int(ok_runs as i64)),
                ("data_race_reports", J::Int(races as i64)),
                ("deadlock_reports", J::Int(deadlocks as i64)),
                ("wall_s", J::Num(t0.elapsed().as_secs_f64().round())),
            ]));
        },
    }
    notes
}
