// C06 (contents round-trip, independence, no aliasing) and C07 (Read/Seek/Write contracts of handles)
use std::{
    collections::BTreeMap,
    io::{Cursor, Read, Seek, SeekFrom, Write},
};

use rivia::prelude::*;

use super::{memfs::random_data, Prop};
use crate::{fsops::*, infra::*};

pub fn props() -> Vec<Prop> {
    vec![
        Prop {
            id: "C06",
            run: c06,
            tools: None,
            rule: "byte-vector model (path -> Vec<u8>) stepped in lock-step with seeded histories of write_all / write_lines / append_all / append_line / append_lines / write() and append() handles (also kept open across calls on other files) / copy / move_p over 4 files in 2 directories with hostile data (empty, 1 byte, multi-byte UTF-8, invalid UTF-8, embedded \\n and \\r\\n, 4 KiB and 64 KiB blocks, every payload tagged with a unique id); after every call ALL files are re-read through read(), read_all() and read_lines() (and std::fs::read on Stdfs) and compared with the model, so a write that leaks into another file or an aliased copy is seen at once; read_lines(write_lines(ls)) == ls for terminator-free non-empty lines. Both backends. distinct_nontrivial = distinct (backend, operation, data class, pre-existing content class) tuples. Later addition: every file is also read through a handle that has already been used (read 1, seek(End(-k)), read_to_end, seek(Start(1)), read_to_end, seek(Start(1)), read_to_string). A reader from read() is also kept open across any other calls (rewrite, append, move away and re-creation of its file) and then closed: the model does not move when it is closed.",
            assumptions: &["a handle kept open is only interleaved with calls on OTHER files (what two writers to one file see is not stated)", "the Stdfs half runs as uid 1000 in a private sandbox"],
            shards_quick: 8,
            shards_thorough: 16,
            budget_quick_s: 240,
            budget_thorough_s: 1200,
            min_evals: 5_000,
            exhaustive_capable: false,
        },
        Prop {
            id: "C07",
            run: c07,
            tools: None,
            rule: "read side: a handle from read() and a std::io::Cursor over the same bytes are driven in lock-step by every script up to depth 2 (quick) / 3 (thorough) over read(buf of 0,1,len-1,len,len+1 bytes), seek(Start|Current|End with every offset in -len-1..=len+2 and i64::MIN, i64::MAX, u64::MAX), stream_position, read_to_end, read_to_string, read_exact for files of length 0..=5, plus seeded random longer scripts; every returned value must agree (same Ok value / both Err), after an Err the position is unchanged, nothing panics. write side: every composition of 6 bytes into <= 4 chunks x flush bit after each chunk x drop after every prefix, for write() and append() on absent / empty / non-empty files; after every flush and after the drop an independent read must equal exactly the bytes written so far (append: old content + those bytes); for append() handles additionally another append_all to the same file at every point where the handle has nothing unflushed (after open, after each flush): its byte and the handle's bytes must all be there in the order they were made durable; for write() handles on the in-memory backend a write_all by someone else at the same points: each later flush and the drop still leave exactly the bytes written through the handle; and a flush that fails because the file was removed under the handle, after which - the file being there again - the next flush and the drop deliver every byte no successful flush had delivered. Both backends (Stdfs offsets limited to < 2^32). distinct_nontrivial = distinct (backend, script shape class, outcome class) tuples.",
            assumptions: &["what a write() handle shows between open and its first flush is not specified and not judged", "on Stdfs offsets beyond 2^32 are answered by the kernel (EINVAL), not by rivia, and are not generated"],
            shards_quick: 8,
            shards_thorough: 16,
            budget_quick_s: 240,
            budget_thorough_s: 1200,
            min_evals: 20_000,
            exhaustive_capable: true,
        },
    ]
}

// =============================================================================================
// C06
// =============================================================================================
fn data_class(d: &[u8]) -> &'static str {
    if d.is_empty() {
        "empty"
    } else if d.len() >= 65536 {
        "64KiB"
    } else if d.len() >= 4096 {
        "4KiB"
    } else if std::str::from_utf8(d).is_err() {
        "invalid-utf8"
    } else if d.contains(&b'\n') {
        "has-newline"
    } else if !d.is_ascii() {
        "multibyte"
    } else if d.len() == 1 {
        "1byte"
    } else {
        "ascii"
    }
}

struct Held {
    path: String,
    handle: Box<dyn Write>,
    append: bool,
    base: Vec<u8>,    // content at open (append)
    written: Vec<u8>, // bytes written through the handle so far
    pending: Vec<u8>, // bytes written through the handle since its last flush
    dirty: bool,      // written since the last flush
    flushed: bool,    // flushed at least once
}

fn verify_all<V: VirtualFileSystem>(v: &V, backend: &str, files: &[String], model: &BTreeMap<String, Vec<u8>>, after: &str, hist: &[String], rep: &mut Report, skip: Option<&str>) {
    for f in files {
        if skip == Some(f.as_str()) {
            continue;
        }
        rep.eval();
        let want = model.get(f);
        let got = exec(v, &Op::ReadBytes(f.clone()));
        let ok = match (want, &got) {
            (Some(w), Res::Bytes(g)) => w == g,
            (None, Res::Err(_)) => true,
            _ => false,
        };
        let wit = |what: &str, got: String| {
            J::obj(vec![
                ("backend", J::s(backend)),
                ("after", J::s(after)),
                ("file", J::s(f)),
                ("check", J::s(what)),
                ("expected", J::s(want.map(|w| format!("{} bytes {:?}", w.len(), String::from_utf8_lossy(&w[..w.len().min(60)]))).unwrap_or("absent".into()))),
                ("got", J::s(got)),
                ("history_tail", J::strs(&hist[hist.len().saturating_sub(10)..])),
            ])
        };
        let opn = after.split('(').next().unwrap_or("?");
        if !ok {
            let same_file = after.contains(f.as_str());
            rep.violation(
                &format!("bytes:{}({}):{}→differs", opn, backend, if same_file { "read()-equals-model" } else { "other-file-unchanged" }),
                wit("read() bytes", got.short()),
            );
            continue;
        }
        if let Some(w) = want {
            // read_all and read_lines agree with the same bytes
            let ra = exec(v, &Op::ReadAll(f.clone()));
            match (String::from_utf8(w.clone()), &ra) {
                (Ok(s), Res::Text(t)) if s == *t => {},
                (Err(_), Res::Err(_)) => {},
                _ => rep.violation(&format!("bytes:read_all({}):utf8-of-model→differs", backend), wit("read_all", ra.short())),
            }
            // read() hands out a handle: the same bytes have to come back through a handle that has already been
            // used (a read, then a seek from the end / from the start), not only through one pass from position 0
            if rep.evals % 4 == 0 && !w.is_empty() {
                use std::io::{Read, Seek, SeekFrom};
                if let Ok(mut h) = v.read(f) {
                    let k = w.len().min(3);
                    let mut one = [0u8; 1];
                    let mut tail = vec![];
                    let mut rest = vec![];
                    let r = (|| -> std::io::Result<()> {
                        h.read_exact(&mut one)?;
                        h.seek(SeekFrom::End(-(k as i64)))?;
                        h.read_to_end(&mut tail)?;
                        h.seek(SeekFrom::Start(1))?;
                        h.read_to_end(&mut rest)?;
                        Ok(())
                    })();
                    // ... and as text from where the handle stands (after a seek back to 1): the rest of the model when
                    // that is UTF-8, an error when it is not - never the whole file again
                    let _ = h.seek(SeekFrom::Start(1));
                    let mut text = String::new();
                    let rt = h.read_to_string(&mut text);
                    let text_ok = match (std::str::from_utf8(&w[1..]), &rt) {
                        (Ok(e), Ok(n)) => *n == e.len() && text == e,
                        (Err(_), Err(_)) => true,
                        _ => false,
                    };
                    if !text_ok {
                        rep.violation(
                            &format!("bytes:read-handle({}):text-from-the-current-position→differs", backend),
                            wit("seek(Start(1)), read_to_string", format!("{:?} {:?}", rt.map_err(|e| e.to_string()), text.chars().take(40).collect::<String>())),
                        );
                    }
                    rep.count("used_handle_reads", 1);
                    if r.is_err() || one[0] != w[0] || tail != w[w.len() - k..] || rest != w[1..] {
                        rep.violation(
                            &format!("bytes:read-handle({}):bytes-through-a-used-handle→differs", backend),
                            wit("read 1, seek(End(-k)), read_to_end, seek(Start(1)), read_to_end", format!("{:?} first={:?} tail={:?} rest={} bytes", r.map_err(|e| e.to_string()), one, String::from_utf8_lossy(&tail), rest.len())),
                        );
                    }
                }
            }
            use std::io::BufRead;
            let exp: Result<Vec<String>, _> = std::io::BufReader::new(&w[..]).lines().collect();
            let rl = exec(v, &Op::ReadLines(f.clone()));
            match (exp, &rl) {
                (Ok(e), Res::Lines(l)) if e == *l => {},
                (Err(_), Res::Err(_)) => {},
                _ => rep.violation(&format!("bytes:read_lines({}):lines-of-model→differs", backend), wit("read_lines", rl.short())),
            }
        }
    }
}

fn c06_backend<V: VirtualFileSystem>(v: &V, backend: &str, root: &str, ctx: &Ctx, rep: &mut Report, steps: usize, std_read: bool) {
    let d1 = format!("{}/d1", root);
    let d2 = format!("{}/d2", root);
    let _ = v.mkdir_p(&d1);
    let _ = v.mkdir_p(&d2);
    let files: Vec<String> = vec![format!("{}/f1", d1), format!("{}/f2", d1), format!("{}/g1", d2), format!("{}/g2", d2)];
    let mut model: BTreeMap<String, Vec<u8>> = BTreeMap::new();
    let mut rng = ctx.rng(&format!("c06-{}", backend));
    let mut uid = (ctx.shard as u64) << 40;
    let mut hist: Vec<String> = vec![];
    let mut held: Option<Held> = None;
    // a reader that stays open across other calls: closing it - whatever happened to its file meanwhile, rewrite,
    // append, removal by a move and re-creation - takes nothing back (what it still reads is not judged)
    let mut reader: Option<(String, Box<dyn ReadSeek>)> = None;
    for _ in 0..steps {
        let f = rng.pick(&files).clone();
        let choice = rng.below(17);
        // the file a handle is open on is left alone - except that other APPENDING calls may reach it while an append
        // handle has nothing unflushed (the order of all appends is then unambiguous: every one adds at the end and
        // none may take anything away)
        if let Some(h) = held.as_ref().filter(|h| h.path == f) {
            if !(h.append && !h.dirty && matches!(choice, 3 | 4 | 6 | 7)) {
                continue;
            }
            rep.count("appends_by_other_calls_while_an_append_handle_is_open", 1);
        }
        let pre_cls = match model.get(&f) {
            None => "absent",
            Some(d) if d.is_empty() => "empty",
            Some(_) => "content",
        };
        let mut after = String::new();
        let mut big = |rng: &mut Rng, uid: &mut u64| -> Vec<u8> {
            if rng.chance(1, 60) {
                *uid += 1;
                let mut v = format!("#{}#", uid).into_bytes();
                v.resize(65536, b'B');
                v
            } else {
                random_data(rng, uid)
            }
        };
        match choice {
            0 | 1 | 2 => {
                let d = big(&mut rng, &mut uid);
                after = format!("write_all({}, {})", f, data_class(&d));
                rep.key_str(&format!("{}|write_all|{}|{}", backend, data_class(&d), pre_cls));
                if exec(v, &Op::WriteAll(f.clone(), d.clone())) == Res::Unit {
                    model.insert(f.clone(), d);
                } else {
                    rep.violation(&format!("bytes:write_all({}):Ok→Err", backend), J::s(&after));
                }
            },
            3 | 4 => {
                let d = big(&mut rng, &mut uid);
                after = format!("append_all({}, {})", f, data_class(&d));
                rep.key_str(&format!("{}|append_all|{}|{}", backend, data_class(&d), pre_cls));
                if exec(v, &Op::AppendAll(f.clone(), d.clone())) == Res::Unit {
                    model.entry(f.clone()).or_default().extend(d);
                } else {
                    rep.violation(&format!("bytes:append_all({}):Ok→Err", backend), J::s(&after));
                }
            },
            5 => {
                let n = if rng.chance(1, 25) { 600 + rng.below(900) } else { rng.below(4) };
                let lines: Vec<String> = (0..n).map(|i| match rng.below(10) {
                    0 | 1 => String::new(),
                    2 => format!("wl{}-{}é\n", uid, i),
                    _ => format!("wl{}-{}é", uid, i),
                }).collect();
                uid += 1;
                after = format!("write_lines({}, {} lines)", f, n);
                rep.key_str(&format!("{}|write_lines|{}|{}", backend, n.min(5), pre_cls));
                if exec(v, &Op::WriteLines(f.clone(), lines.clone())) == Res::Unit {
                    model.insert(f.clone(), lines.iter().map(|l| format!("{}\n", l)).collect::<String>().into_bytes());
                    // round trip law for terminator-free non-empty lines
                    if lines.iter().all(|l| !l.is_empty() && !l.contains('\n')) {
                        if let Res::Lines(back) = exec(v, &Op::ReadLines(f.clone())) {
                            if back != lines {
                                rep.violation(&format!("bytes:read_lines(write_lines)({}):identity→differs", backend), J::obj(vec![("lines", J::strs(&lines)), ("back", J::strs(&back))]));
                            }
                        }
                    }
                } else {
                    rep.violation(&format!("bytes:write_lines({}):Ok→Err", backend), J::s(&after));
                }
            },
            6 => {
                // (also lines that already end in a terminator: the helper still adds exactly one newline)
                let l = match rng.below(10) {
                    0 | 1 => String::new(),
                    2 => format!("al{}€\n", uid),
                    3 => format!("al{}\r\n", uid),
                    4 => "\n".to_string(),
                    _ => format!("al{}€", uid),
                };
                uid += 1;
                after = format!("append_line({}, {:?})", f, l);
                rep.key_str(&format!("{}|append_line|{}|{}", backend, l.is_empty(), pre_cls));
                if exec(v, &Op::AppendLine(f.clone(), l.clone())) == Res::Unit {
                    model.entry(f.clone()).or_default().extend(format!("{}\n", l).bytes());
                }
            },
            7 => {
                // (now and then far more lines than fit one vectored write: every one of them arrives)
                let n = if rng.chance(1, 25) { 600 + rng.below(900) } else { rng.below(3) };
                let lines: Vec<String> = (0..n).map(|i| if rng.chance(1, 5) { format!("as{}-{}\n", uid, i) } else { format!("as{}-{}", uid, i) }).collect();
                uid += 1;
                after = format!("append_lines({}, {} lines)", f, n);
                rep.key_str(&format!("{}|append_lines|{}|{}", backend, n.min(4), pre_cls));
                if exec(v, &Op::AppendLines(f.clone(), lines.clone())) == Res::Unit {
                    model.entry(f.clone()).or_default().extend(lines.iter().map(|l| format!("{}\n", l)).collect::<String>().bytes());
                }
            },
            8 | 9 => {
                // copy or move a file onto another file path
                let g = rng.pick(&files).clone();
                if g == f || !model.contains_key(&f) || held.as_ref().map(|h| h.path == g).unwrap_or(false) {
                    continue;
                }
                if choice == 8 {
                    after = format!("copy({}, {})", f, g);
                    rep.key_str(&format!("{}|copy|{}|{}", backend, pre_cls, model.contains_key(&g)));
                    if exec(v, &Op::Copy(f.clone(), g.clone())) == Res::Unit {
                        let d = model.get(&f).unwrap().clone();
                        model.insert(g.clone(), d);
                    } else {
                        rep.violation(&format!("bytes:copy(file,file)({}):Ok→Err", backend), J::s(&after));
                    }
                } else {
                    after = format!("move_p({}, {})", f, g);
                    rep.key_str(&format!("{}|move_p|{}|{}", backend, pre_cls, model.contains_key(&g)));
                    if exec(v, &Op::MoveP(f.clone(), g.clone())) == Res::Unit {
                        let d = model.remove(&f).unwrap();
                        model.insert(g.clone(), d);
                    } else {
                        rep.violation(&format!("bytes:move_p(file,file)({}):Ok→Err", backend), J::s(&after));
                    }
                }
            },
            10 | 11 => {
                // open a handle and keep it across other calls
                if held.is_none() {
                    let append = choice == 11;
                    let h = if append { v.append(&f) } else { v.write(&f) };
                    if let Ok(h) = h {
                        after = format!("{}({}) opened", if append { "append" } else { "write" }, f);
                        let base = model.get(&f).cloned().unwrap_or_default();
                        if !model.contains_key(&f) {
                            model.insert(f.clone(), vec![]);
                        } else if !append {
                            // what the file shows between open and the first flush is not specified: skip this file until then
                        }
                        held = Some(Held { path: f.clone(), handle: h, append, base, written: vec![], pending: vec![], dirty: false, flushed: false });
                        rep.key_str(&format!("{}|open-{}|{}", backend, if append { "append" } else { "write" }, pre_cls));
                    }
                }
            },
            12 | 13 => {
                // write through / flush / drop the held handle
                if let Some(mut h) = held.take() {
                    let d = random_data(&mut rng, &mut uid);
                    let _ = h.handle.write_all(&d);
                    h.written.extend(&d);
                    h.pending.extend(&d);
                    h.dirty = true;
                    let flush = rng.chance(1, 2);
                    let dropit = rng.chance(1, 2);
                    if flush || dropit {
                        if flush {
                            let _ = h.handle.flush();
                        }
                        h.dirty = false;
                        h.flushed = true;
                        let expect = if h.append {
                            // what the handle wrote since its last flush lands at the current end of the file
                            let mut b = model.get(&h.path).cloned().unwrap_or_default();
                            b.extend(&h.pending);
                            b
                        } else {
                            h.written.clone()
                        };
                        h.pending.clear();
                        let _ = &h.base;
                        model.insert(h.path.clone(), expect);
                        after = format!("handle({}) wrote {} {}", h.path, data_class(&d), if dropit { "and was dropped" } else { "and flushed" });
                        rep.key_str(&format!("{}|handle-{}|{}|{}", backend, if h.append { "append" } else { "write" }, data_class(&d), dropit));
                        if dropit {
                            drop(h);
                        } else {
                            held = Some(h);
                        }
                    } else {
                        held = Some(h);
                        continue;
                    }
                }
            },
            14 => match reader.take() {
                None => {
                    if model.contains_key(&f) {
                        if let Ok(r) = v.read(&f) {
                            after = format!("read({}) opened", f);
                            rep.key_str(&format!("{}|open-read|{}", backend, pre_cls));
                            reader = Some((f.clone(), r));
                        }
                    }
                },
                Some((path, mut r)) => {
                    let mut buf = vec![0u8; rng.below(8)];
                    let _ = r.read(&mut buf);
                    drop(r);
                    let changed = model.get(&path).map(|d| d.len());
                    after = format!("reader({}) read {} bytes and was dropped", path, buf.len());
                    rep.key_str(&format!("{}|close-read|{}|{}", backend, buf.len(), changed.is_some()));
                    rep.count("readers_closed_after_other_calls", 1);
                },
            },
            _ => {
                after = format!("read({})", f);
            },
        }
        if after.is_empty() {
            continue;
        }
        hist.push(after.clone());
        set_case(&format!("bytes:{}:returns→stalls", after.split('(').next().unwrap_or("")), &after);
        // a write() handle that has not flushed yet leaves its file unspecified
        let skip = held.as_ref().filter(|h| h.dirty || (!h.append && !h.flushed)).map(|h| h.path.clone());
        verify_all(v, backend, &files, &model, &after, &hist, rep, skip.as_deref());
        if std_read {
            for f in &files {
                if skip.as_deref() == Some(f.as_str()) {
                    continue;
                }
                let got = std::fs::read(f).ok();
                if got.as_ref() != model.get(f) {
                    rep.violation(
                        &format!("bytes:{}(stdfs):std::fs::read-equals-model→differs", after.split('(').next().unwrap_or("?")),
                        J::obj(vec![("after", J::s(&after)), ("file", J::s(f)), ("history_tail", J::strs(&hist[hist.len().saturating_sub(10)..]))]),
                    );
                }
            }
        }
        if rep.want_sample() && hist.len() == 12 {
            rep.sample(J::obj(vec![("backend", J::s(backend)), ("history", J::strs(&hist))]));
        }
    }
}

fn c06(ctx: &Ctx, rep: &mut Report) {
    let (sb, root) = Sandbox::nested("c06");
    if !drop_privileges(&sb, 1000, 1000) {
        rep.inconclusive("could not switch to uid 1000 for the Stdfs half");
    }
    let steps = if ctx.thorough { 3_000_000 } else { 48_000 } / ctx.shards;
    let m = Memfs::new();
    c06_backend(&m, "memfs", "/w", ctx, rep, steps, false);
    let vm = Vfs::memfs();
    c06_backend(&vm, "vfs-memfs", "/w", ctx, rep, steps / 4, false);
    c06_backend(&Stdfs::new(), "stdfs", &root, ctx, rep, steps / 3, true);
    drop(sb);
}

// =============================================================================================
// C07 read side
// =============================================================================================
#[derive(Clone, Debug, PartialEq)]
enum RS {
    Read(usize),
    Seek(SeekFrom),
    Pos,
    ToEnd,
    ToString,
    Exact(usize),
}
fn rs_class(s: &RS, len: usize) -> String {
    let l = len as i64;
    match s {
        RS::Read(n) => format!("read({})", if *n == 0 { "0" } else if *n <= len { "<=len" } else { ">len" }),
        RS::Pos => "stream_position".into(),
        RS::ToEnd => "read_to_end".into(),
        RS::ToString => "read_to_string".into(),
        RS::Exact(n) => format!("read_exact({})", if *n == 0 { "0" } else if *n <= len { "<=len" } else { ">len" }),
        RS::Seek(SeekFrom::Start(x)) => format!("seek(Start {})", if *x as i64 <= l && (*x as i64) >= 0 { "in" } else if *x == u64::MAX { "u64::MAX" } else { "beyond" }),
        RS::Seek(SeekFrom::Current(d)) => format!("seek(Current {})", off_class(*d, l)),
        RS::Seek(SeekFrom::End(d)) => format!("seek(End {})", off_class(*d, l)),
    }
}
fn off_class(d: i64, l: i64) -> &'static str {
    if d == i64::MIN {
        "i64::MIN"
    } else if d == i64::MAX {
        "i64::MAX"
    } else if d == 0 {
        "0"
    } else if d < -l {
        "below-start"
    } else if d < 0 {
        "negative"
    } else if d > l {
        "beyond-end"
    } else {
        "positive"
    }
}
fn read_alphabet(len: usize, wide: bool) -> Vec<RS> {
    let l = len as i64;
    let mut v = vec![RS::Pos, RS::ToEnd, RS::ToString];
    let mut sizes = vec![0usize, 1, len.saturating_sub(1), len, len + 1];
    sizes.sort();
    sizes.dedup();
    for n in sizes {
        v.push(RS::Read(n));
        if n > 0 {
            v.push(RS::Exact(n));
        }
    }
    let mut offs: Vec<i64> = (-l - 1..=l + 2).collect();
    if wide {
        offs.extend([i64::MIN, i64::MAX, i64::MIN + 1, i64::MAX - 1]);
    }
    for o in &offs {
        v.push(RS::Seek(SeekFrom::Current(*o)));
        v.push(RS::Seek(SeekFrom::End(*o)));
        if *o >= 0 {
            v.push(RS::Seek(SeekFrom::Start(*o as u64)));
        }
    }
    if wide {
        v.push(RS::Seek(SeekFrom::Start(u64::MAX)));
        v.push(RS::Seek(SeekFrom::Start(i64::MAX as u64 + 1)));
    } else {
        v.push(RS::Seek(SeekFrom::Start(1 << 20)));
        v.push(RS::Seek(SeekFrom::Current(1 << 20)));
    }
    v
}

fn run_read_script<V: VirtualFileSystem>(v: &V, backend: &str, path: &str, bytes: &[u8], script: &[RS], rep: &mut Report) {
    rep.eval();
    let shape: Vec<String> = script.iter().map(|s| rs_class(s, bytes.len())).collect();
    let key = format!("{}|len{}|{}", backend, bytes.len().min(2), shape.join(";"));
    rep.key_str(&key);
    let at = std::cell::Cell::new(0usize);
    let r = catch(|| {
        let mut h = match v.read(path) {
            Ok(h) => h,
            Err(e) => return Some(("open".to_string(), format!("read() failed: {}", e))),
        };
        let mut c = Cursor::new(bytes.to_vec());
        for (i, s) in script.iter().enumerate() {
            at.set(i);
            let (a, b): (String, String) = match s {
                RS::Read(n) => {
                    let mut b1 = vec![0u8; *n];
                    let mut b2 = vec![0u8; *n];
                    let r1 = h.read(&mut b1).map(|k| (k, b1[..k.min(*n)].to_vec())).map_err(|_| ());
                    let r2 = c.read(&mut b2).map(|k| (k, b2[..k].to_vec())).map_err(|_| ());
                    (format!("{:?}", r1), format!("{:?}", r2))
                },
                RS::Seek(p) => {
                    let r1 = h.seek(*p).map_err(|_| ());
                    let r2 = c.seek(*p).map_err(|_| ());
                    (format!("{:?}", r1), format!("{:?}", r2))
                },
                RS::Pos => (format!("{:?}", h.stream_position().map_err(|_| ())), format!("{:?}", c.stream_position().map_err(|_| ()))),
                RS::ToEnd => {
                    let mut b1 = vec![];
                    let mut b2 = vec![];
                    let r1 = h.read_to_end(&mut b1).map(|k| (k, b1.clone())).map_err(|_| ());
                    let r2 = c.read_to_end(&mut b2).map(|k| (k, b2.clone())).map_err(|_| ());
                    (format!("{:?}", r1), format!("{:?}", r2))
                },
                // (the provided methods of Read are part of the contract too: whatever a handle overrides has to
                // start from the current position like the default does)
                RS::ToString => {
                    let mut b1 = String::from("|");
                    let mut b2 = String::from("|");
                    let r1 = h.read_to_string(&mut b1).map(|k| (k, b1.clone())).map_err(|_| ());
                    let r2 = c.read_to_string(&mut b2).map(|k| (k, b2.clone())).map_err(|_| ());
                    (format!("{:?}", r1), format!("{:?}", r2))
                },
                RS::Exact(n) => {
                    let mut b1 = vec![0u8; *n];
                    let mut b2 = vec![0u8; *n];
                    let r1 = h.read_exact(&mut b1).map(|_| b1.clone()).map_err(|_| ());
                    let r2 = c.read_exact(&mut b2).map(|_| b2.clone()).map_err(|_| ());
                    (format!("{:?}", r1), format!("{:?}", r2))
                },
            };
            if a != b {
                return Some((format!("step{}:{}:{}→{}", i, rs_class(s, bytes.len()), if b.starts_with("Err") { "Err" } else { "Ok(cursor value)" }, if a.starts_with("Err") { "Err" } else { "Ok(other)" }), format!("handle {} cursor {}", a, b)));
            }
            // (Read::read_exact: "if this function returns an error, it is unspecified how many bytes it has read" -
            // the script ends there)
            if matches!(s, RS::Exact(_)) && a.starts_with("Err") {
                return None;
            }
            // position agreement, in particular after an error
            let p1 = h.seek(SeekFrom::Current(0)).map_err(|_| ());
            let p2 = c.seek(SeekFrom::Current(0)).map_err(|_| ());
            if p1 != p2 {
                return Some((
                    format!("step{}:{}:position-after-{}→differs", i, rs_class(s, bytes.len()), if a.starts_with("Err") { "Err" } else { "Ok" }),
                    format!("handle position {:?} cursor position {:?}", p1, p2),
                ));
            }
        }
        None
    });
    let wit = |d: &str| J::obj(vec![("backend", J::s(backend)), ("file_bytes", J::Int(bytes.len() as i64)), ("script", J::s(format!("{:?}", script))), ("detail", J::s(d))]);
    match r {
        Err(m) => rep.violation(&format!("cursor:{}:{}:no-panic→panic", backend, shape.get(at.get()).cloned().unwrap_or_default()), wit(&m)),
        Ok(Some((sig, d))) => {
            // signature without the step index noise
            let sig = sig.splitn(2, ':').nth(1).unwrap_or(&sig).to_string();
            rep.violation(&format!("cursor:{}:{}", backend, sig), wit(&d))
        },
        Ok(None) => {
            if rep.want_sample() && script.len() >= 3 && matches!(script[0], RS::Seek(SeekFrom::End(_))) {
                rep.sample(J::obj(vec![("backend", J::s(backend)), ("file_bytes", J::Int(bytes.len() as i64)), ("read_script", J::s(format!("{:?}", script)))]));
            }
        },
    }
}

fn c07_read<V: VirtualFileSystem>(v: &V, backend: &str, root: &str, ctx: &Ctx, rep: &mut Report, wide: bool) {
    let _ = v.mkdir_p(root);
    let depth = if ctx.thorough { 3 } else { 2 };
    let mut idx = 0u64;
    for len in 0..=5usize {
        let bytes: Vec<u8> = (0..len as u8).map(|i| b'a' + i).collect();
        let path = format!("{}/r{}", root, len);
        let _ = v.write_all(&path, &bytes);
        let alpha = read_alphabet(len, wide);
        // exhaustive scripts up to depth
        let mut stack: Vec<Vec<usize>> = vec![vec![]];
        while let Some(pre) = stack.pop() {
            if !pre.is_empty() {
                idx += 1;
                if ctx.mine(idx) {
                    let script: Vec<RS> = pre.iter().map(|i| alpha[*i].clone()).collect();
                    set_case(&format!("cursor:{}:returns→stalls", backend), &format!("{:?}", script));
                    run_read_script(v, backend, &path, &bytes, &script, rep);
                }
            }
            if pre.len() < depth {
                for i in 0..alpha.len() {
                    let mut n = pre.clone();
                    n.push(i);
                    stack.push(n);
                }
            }
        }
        // random longer scripts
        let mut rng = ctx.rng(&format!("c07-read-{}-{}", backend, len));
        let n = if ctx.thorough { 20_000 } else { 2_000 } / ctx.shards;
        for _ in 0..n {
            let k = 3 + rng.below(5);
            let script: Vec<RS> = (0..k).map(|_| alpha[rng.below(alpha.len())].clone()).collect();
            run_read_script(v, backend, &path, &bytes, &script, rep);
        }
    }
}

// =============================================================================================
// C07 write side
// =============================================================================================
fn compositions(n: usize, max_parts: usize) -> Vec<Vec<usize>> {
    // all ways to write n as an ordered sum of 1..=max_parts positive parts
    fn rec(n: usize, parts: usize, cur: &mut Vec<usize>, out: &mut Vec<Vec<usize>>) {
        if n == 0 {
            out.push(cur.clone());
            return;
        }
        if parts == 0 {
            return;
        }
        for k in 1..=n {
            cur.push(k);
            rec(n - k, parts - 1, cur, out);
            cur.pop();
        }
    }
    let mut out = vec![];
    rec(n, max_parts, &mut vec![], &mut out);
    out
}

fn c07_write<V: VirtualFileSystem>(v: &V, backend: &str, root: &str, ctx: &Ctx, rep: &mut Report) {
    let _ = v.mkdir_p(root);
    let data = b"ABCDEF";
    let comps = compositions(data.len(), 4);
    let mut idx = 0u64;
    for append in [false, true] {
        for pre in [None, Some(&b""[..]), Some(&b"old-"[..])] {
            for comp in &comps {
                for flush_bits in 0..(1u32 << comp.len()) {
                    for drop_after in 0..=comp.len() {
                        // another appending call reaches the file while the append handle is open and has nothing
                        // unflushed (right after open, right after a flush): every append adds at the end, so the
                        // handle's bytes still land after whatever the file holds by then and nothing is taken away
                        let mut intrusions: Vec<Option<usize>> = vec![None];
                        // (for write() handles the other call is a write_all, and only on the in-memory backend, whose
                        // handle is documented to replace the stored content on every sync: each flush and the drop
                        // still leave exactly the bytes written through the handle. The real backend's handle is a file
                        // offset, which a truncation by someone else turns into a hole - not covered by the statement)
                        if append || backend != "stdfs" {
                            for k in 0..=drop_after.min(comp.len()) {
                                if k == 0 || flush_bits & (1 << (k - 1)) != 0 {
                                    intrusions.push(Some(k));
                                }
                            }
                        }
                        for intrude in intrusions {
                        idx += 1;
                        if !ctx.mine(idx) {
                            continue;
                        }
                        rep.eval();
                        let path = format!("{}/w", root);
                        let _ = v.remove(&path);
                        if let Some(p) = pre {
                            let _ = v.write_all(&path, p);
                        }
                        let base: Vec<u8> = if append { pre.map(|p| p.to_vec()).unwrap_or_default() } else { vec![] };
                        let pre_cls = match pre {
                            None => "absent",
                            Some(p) if p.is_empty() => "empty",
                            _ => "content",
                        };
                        let what = if append { "append" } else { "write" };
                        let icls = match intrude {
                            None => "none",
                            Some(0) => "after-open",
                            Some(_) => "after-flush",
                        };
                        rep.key_str(&format!("{}|{}|{}|chunks{}|flush{:b}|drop{}|other-call-{}", backend, what, pre_cls, comp.len(), flush_bits, drop_after, icls));
                        set_case(&format!("handle:{}:{}:returns→stalls", backend, what), &format!("{:?} {:b} {} {:?}", comp, flush_bits, drop_after, intrude));
                        let wit = |stage: &str, exp: &[u8], got: &Res| {
                            J::obj(vec![
                                ("backend", J::s(backend)),
                                ("handle", J::s(what)),
                                ("file_before", J::s(pre_cls)),
                                ("chunks", J::s(format!("{:?}", comp))),
                                ("flush_after_chunk_bits", J::s(format!("{:b}", flush_bits))),
                                ("dropped_after_chunk", J::Int(drop_after as i64)),
                                ("other_append_before_chunk", J::s(format!("{:?}", intrude))),
                                ("stage", J::s(stage)),
                                ("expected", J::s(String::from_utf8_lossy(exp))),
                                ("got", J::s(got.short())),
                            ])
                        };
                        let r = catch(|| {
                            let mut h = match if append { v.append(&path) } else { v.write(&path) } {
                                Ok(h) => h,
                                Err(e) => return Some(("open→Err".to_string(), J::s(e.to_string()))),
                            };
                            let mut off = 0;
                            // what the file must hold once everything written so far has been flushed
                            let mut exp: Vec<u8> = base.clone();
                            let mut pending: Vec<u8> = vec![];
                            for ci in 0..=comp.len() {
                                if intrude == Some(ci) && !append {
                                    if v.write_all(&path, b"X").is_err() {
                                        return Some(("other-write→Err".to_string(), J::Null));
                                    }
                                }
                                if intrude == Some(ci) && append {
                                    if v.append_all(&path, b"+").is_err() {
                                        return Some(("other-append→Err".to_string(), J::Null));
                                    }
                                    exp.push(b'+');
                                    let got = exec(v, &Op::ReadBytes(path.clone()));
                                    if got != Res::Bytes(exp.clone()) {
                                        return Some((format!("after-other-append:adds-at-the-end→differs"), wit("after the other append", &exp, &got)));
                                    }
                                }
                                if ci >= drop_after || ci >= comp.len() {
                                    break;
                                }
                                let c = comp[ci];
                                if h.write_all(&data[off..off + c]).is_err() {
                                    return Some(("write_all→Err".to_string(), J::Null));
                                }
                                pending.extend(&data[off..off + c]);
                                off += c;
                                if flush_bits & (1 << ci) != 0 {
                                    if h.flush().is_err() {
                                        return Some(("flush→Err".to_string(), J::Null));
                                    }
                                    exp.extend(&pending);
                                    pending.clear();
                                    let got = exec(v, &Op::ReadBytes(path.clone()));
                                    if got != Res::Bytes(exp.clone()) {
                                        return Some((format!("after-flush:bytes-written-so-far→differs"), wit("after flush", &exp, &got)));
                                    }
                                }
                            }
                            drop(h);
                            exp.extend(&pending);
                            let got = exec(v, &Op::ReadBytes(path.clone()));
                            if got != Res::Bytes(exp.clone()) {
                                return Some((format!("after-drop:bytes-written-so-far→differs"), wit("after drop", &exp, &got)));
                            }
                            None
                        });
                        match r {
                            Err(m) => rep.violation(&format!("handle:{}({},{}):no-panic→panic", what, backend, pre_cls), J::s(m)),
                            Ok(Some((sig, w))) => rep.violation(
                                &format!("handle:{}({},{},dropped-after={}{}):{}", what, backend, pre_cls, if drop_after == 0 { "0" } else if drop_after == comp.len() { "all" } else { "some" }, if intrude.is_some() { format!(",other-{}-{}", if append { "append" } else { "write" }, icls) } else { String::new() }, sig),
                                w,
                            ),
                            Ok(None) => {},
                        }
                        }
                    }
                }
            }
        }
    }
}

/// In-memory backend only: a flush that FAILS (the file was removed under the handle) makes nothing durable - so it
/// must not count the bytes as written either. Once the file is there again, the next flush and the drop show every
/// byte the handle was given and that no successful flush had delivered yet (append: after what the file holds by
/// then; write: the whole of what was written through the handle). The real backend's handle keeps writing to the
/// unlinked inode, which is a different (and not stated) behaviour.
fn c07_failed_flush<V: VirtualFileSystem>(v: &V, backend: &str, root: &str, rep: &mut Report) {
    let _ = v.mkdir_p(root);
    for append in [false, true] {
        for first_flush in [false, true] {
            for bytes_before_failure in [false, true] {
                for recreate_with in ["", "R"] {
                    rep.eval();
                    let path = format!("{}/ff", root);
                    let _ = v.remove(&path);
                    let what = if append { "append" } else { "write" };
                    let variant = format!("first-flush={},bytes-before-failing-flush={},recreated-{}", first_flush, bytes_before_failure, if recreate_with.is_empty() { "empty" } else { "with-content" });
                    rep.key_str(&format!("{}|{}|failed-flush|{}", backend, what, variant));
                    let r = catch(|| -> Option<(String, String)> {
                        let mut h = match if append { v.append(&path) } else { v.write(&path) } {
                            Ok(h) => h,
                            Err(e) => return Some(("open→Err".into(), e.to_string())),
                        };
                        let mut undelivered: Vec<u8> = vec![]; // given to the handle, no successful flush since
                        let mut all: Vec<u8> = vec![];
                        let _ = h.write_all(b"AB");
                        undelivered.extend(b"AB");
                        all.extend(b"AB");
                        if first_flush {
                            if h.flush().is_err() {
                                return Some(("first-flush→Err".into(), String::new()));
                            }
                            undelivered.clear();
                        }
                        if v.remove(&path).is_err() {
                            return Some(("remove-under-the-handle→Err".into(), String::new()));
                        }
                        if bytes_before_failure {
                            let _ = h.write_all(b"CD");
                            undelivered.extend(b"CD");
                            all.extend(b"CD");
                        }
                        let failed = h.flush().is_err();
                        rep.count(if failed { "flushes_that_failed_on_a_removed_file" } else { "flushes_on_a_removed_file_that_reported_ok" }, 1);
                        if !failed {
                            return None; // nothing stated about a flush that claims success there
                        }
                        if v.write_all(&path, recreate_with.as_bytes()).is_err() {
                            return Some(("recreate→Err".into(), String::new()));
                        }
                        let _ = h.write_all(b"EF");
                        undelivered.extend(b"EF");
                        all.extend(b"EF");
                        if h.flush().is_err() {
                            return Some(("flush-after-recreation→Err".into(), String::new()));
                        }
                        let exp: Vec<u8> = if append {
                            let mut e = recreate_with.as_bytes().to_vec();
                            e.extend(&undelivered);
                            e
                        } else {
                            all.clone()
                        };
                        let got = exec(v, &Op::ReadBytes(path.clone()));
                        if got != Res::Bytes(exp.clone()) {
                            return Some(("after-the-flush-that-succeeded:every-undelivered-byte→differs".into(), format!("expected {:?} got {}", String::from_utf8_lossy(&exp), got.short())));
                        }
                        drop(h);
                        let got = exec(v, &Op::ReadBytes(path.clone()));
                        if got != Res::Bytes(exp.clone()) {
                            return Some(("after-drop:every-undelivered-byte→differs".into(), format!("expected {:?} got {}", String::from_utf8_lossy(&exp), got.short())));
                        }
                        None
                    });
                    match r {
                        Err(m) => rep.violation(&format!("handle:{}({},failed-flush):no-panic→panic", what, backend), J::s(m)),
                        Ok(Some((sig, d))) => rep.violation(
                            &format!("handle:{}({},failed-flush):{}", what, backend, sig),
                            J::obj(vec![("backend", J::s(backend)), ("handle", J::s(what)), ("variant", J::s(&variant)), ("script", J::s("open; write AB; [flush]; remove(file); [write CD]; flush (fails); write_all(file, R|empty); write EF; flush; drop")), ("detail", J::s(d))]),
                        ),
                        Ok(None) => {},
                    }
                }
            }
        }
    }
}

/// An append handle on a file that is already large, a large block through it, then small records: every flush and the
/// drop deliver exactly what was written since the last one (sizes beyond any internal buffer or release threshold).
fn c07_large_append<V: VirtualFileSystem>(v: &V, backend: &str, root: &str, rep: &mut Report) {
    let _ = v.mkdir_p(root);
    for (pre_len, block) in [(5usize, 100usize), (70_000, 5), (5, 100_000), (70_000, 300_000)] {
        rep.eval();
        let path = format!("{}/big", root);
        let _ = v.remove(&path);
        let mut model: Vec<u8> = (0..pre_len).map(|i| b'a' + (i % 26) as u8).collect();
        let _ = v.write_all(&path, &model);
        rep.key_str(&format!("{}|append|large|pre{}|block{}", backend, pre_len > 65536, block > 65536));
        let r = catch(|| -> Option<String> {
            let mut h = match v.append(&path) {
                Ok(h) => h,
                Err(e) => return Some(format!("open: {}", e)),
            };
            let steps: Vec<(Vec<u8>, bool)> = vec![
                ((0..block).map(|i| b'A' + (i % 26) as u8).collect(), true),
                (b"|rec-1".to_vec(), true),
                (b"|rec".to_vec(), false),
                (b"-2".to_vec(), true),
                (b"|rec-3".to_vec(), false),
            ];
            for (i, (d, flush)) in steps.iter().enumerate() {
                if h.write_all(d).is_err() {
                    return Some(format!("write {} failed", i));
                }
                model.extend(d);
                if *flush {
                    if h.flush().is_err() {
                        return Some(format!("flush {} failed", i));
                    }
                    if exec(v, &Op::ReadBytes(path.clone())) != Res::Bytes(model.clone()) {
                        return Some(format!("after flush {}: file differs from everything written so far ({} bytes expected)", i, model.len()));
                    }
                }
            }
            drop(h);
            if exec(v, &Op::ReadBytes(path.clone())) != Res::Bytes(model.clone()) {
                return Some(format!("after drop: file differs from everything written ({} bytes expected)", model.len()));
            }
            None
        });
        match r {
            Err(m) => rep.violation(&format!("handle:append({},large):no-panic→panic", backend), J::s(m)),
            Ok(Some(d)) => rep.violation(&format!("handle:append({},large):bytes-written-so-far→differs", backend), J::obj(vec![("existing_bytes", J::Int(pre_len as i64)), ("block_bytes", J::Int(block as i64)), ("detail", J::s(d))])),
            Ok(None) => {},
        }
    }
}

fn c07(ctx: &Ctx, rep: &mut Report) {
    let (sb, root) = Sandbox::nested("c07");
    if !drop_privileges(&sb, 1000, 1000) {
        rep.inconclusive("could not switch to uid 1000 for the Stdfs half");
    }
    let m = Memfs::new();
    c07_read(&m, "memfs", "/r", ctx, rep, true);
    c07_write(&m, "memfs", "/w", ctx, rep);
    let vm = Vfs::memfs();
    c07_write(&vm, "vfs-memfs", "/w", ctx, rep);
    if ctx.shard == 0 {
        c07_failed_flush(&m, "memfs", "/ff", rep);
        c07_failed_flush(&vm, "vfs-memfs", "/ff", rep);
        c07_large_append(&m, "memfs", "/la", rep);
        c07_large_append(&vm, "vfs-memfs", "/la", rep);
    }
    let s = Stdfs::new();
    c07_read(&s, "stdfs", &format!("{}/r", root), ctx, rep, false);
    c07_write(&s, "stdfs", &format!("{}/w", root), ctx, rep);
    if ctx.shard == 0 {
        c07_large_append(&s, "stdfs", &format!("{}/la", root), rep);
    }
    drop(sb);
}
