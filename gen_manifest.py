#!/usr/bin/env python3
# Regenerates MANIFEST.json from the table below (kept in one place so the manifest is always schema-valid).
import json, subprocess
hooks_commits = subprocess.run(["git","-C","/repo","log","--format=%h %s","--grep=^verif hooks"],capture_output=True,text=True).stdout.strip().splitlines()
CLAIMED = {
 "C01": ("reference-model lock-step oracle over a state-space sweep and random histories",
         "Every call is executed on the real Memfs and on a reference tree filesystem written from the trait documentation; after every call the result (value or documented error kind) and the complete post state (hook snapshot: names, kinds, bytes, link targets, modes, owners, cwd) must equal an outcome the reference allows, and a failed call must leave the snapshot unchanged. Driven by a breadth-first sweep over all reference states of a bounded namespace x a finite alphabet of every mutator/query/path/spelling (to the fixpoint or a state cap, which the evidence states) and by seeded random histories with hostile data over a larger namespace.",
         "Reference = docs + pinned unit tests; docs-silent either-points accept Ok or Err (counted in the evidence); no intermediate symlink resolution in the reference.", "5/C01"),
 "C02": ("differential monitor Stdfs vs Memfs with an independent std::fs disk observer",
         "(a) Every in-domain reference state of the bounded namespace is materialised on disk with std::fs and inside a Memfs (both verified by the observers before use), then every call of a finite alphabet of every mutating and querying method whose arguments do not pass through a symlink runs on both backends: success-or-failure and returned values must be equal and the tree seen by the std::fs observer (names, kinds, bytes, link targets made absolute, permission bits) must equal the Memfs snapshot. (b) Seeded multi-step histories in one sandbox, continued while the state stays in the domain. Half of the worker processes run as root, half as uid 1000 (whose ids equal Memfs's default owner, so owner values are compared there).",
         "Error kinds, timestamps, tree owners and the process cwd are not compared; after a multi-entry call that fails on both sides the half-done trees are not compared; unprivileged configuration restricted to modes that keep the owner's access; tmpfs or $VERIF_TMP.", "5/C02"),
 "C03": ("invariant walker at a hook (state snapshot) after every call",
         "After every call of the C01 workloads plus an invalid-argument sweep from every swept state, the complete internal state (hook snapshot) is walked for exactly the clauses of the statement (parent exists, is a real directory and lists the child; listed names exist; entry path == key; data records == regular files; reachability from / == all keys; cwd/root absolute; lock not poisoned) and cross-checked through exists()/all_paths()/Display.",
         "Invariants are observed at call boundaries; concurrent quiescent points are covered by C04's runs.", "5/C03"),
 "C04": ("controlled scheduler over guard-event hooks + linearizability / exactly-once / wait-state monitors + Miri",
         "Real threads run the real Memfs under a controlled scheduler fed by the guard hook (one runnable thread, yield points at call starts and before guard acquisitions): every schedule of every 2-thread x 1-call program over the single-step alphabet and of seeded 2x2/3x1/3x2/2x1 (thorough also 2x2x2, 3x3) programs is enumerated depth-first by re-execution; each execution is checked for linearizability against sequential Memfs itself, append exactly-once with unique tokens, nested guard acquisition, panics / poisoning and tree integrity at quiescence. The same programs and 8-thread mixes also run free on 16 cores with a spinning start line, a global clock and a wait-state monitor (deadlock certificate from guard events); the evidence counts the call pairs that really overlapped. Miri (many seeds) runs a hook-free executor for data races, deadlocks and UB.",
         "Guard-boundary granularity is complete only while all shared state stays behind read_guard/write_guard (cross-checked by Miri); programs above 3x3 are sampled; schedule cap 4000 per program.", "5/C04"),
 "C05": ("reference-function monitor + metamorphic spelling check + syscall-trace checker (strace)",
         "Oracle 1: Memfs::abs and Stdfs::abs are compared with a string-level reference for every string up to length 6/7 over {/ . ~ $ : a 2-byte}, scheme-prefixed variants and random longer strings, under 4 cwds and 3 HOME values (one per worker process), with well-formedness, idempotence and cross-backend equality. Oracle 2: for a prepared state x every path-taking method x every spelling of the argument, the call and the call with abs(argument) on an identical instance must give equal results and complete states (Memfs: hook snapshot; Stdfs: disk observer). Oracle 3: strace -e trace=%file of a child bracketing 10^4 abs() calls per backend between marker syscalls; only getcwd (Stdfs) may appear, and not even that in a third section whose inputs do not depend on the cwd; the child then removes its own working directory and must still get the in-memory backend's answers for those inputs.",
         "UTF-8 paths; undelimited variable names not judged; symlink()'s target is documented as link-relative and is not an abs() argument.", "5/C05"),
 "C08": ("reference walker + constrained-sequence checker over random trees x full option cross-product",
         "Seeded random trees (links to files/dirs/ancestors/absent paths, cycles) x ~3000 option records x descriptor caps {0,1,2,50} (hook) and a 60-deep chain: a reference walker computes what the options denote; the produced sequence is checked for termination, multiset equality, filter soundness, parent/contents order, exact sequence equality whenever an order is requested, LinkLooping instead of endless descent and cap independence; the listing helpers for absolute/distinct/sorted/argument-free results agreeing with exists/is_dir/is_file in both directions. Memfs for all, Stdfs on materialised in-domain trees.",
         "Link-to-link chains only without follow; sibling order judged only when requested; ties fall back to multisets.", "5/C08"),
 "C12": ("catch_unwind + CPU/wall watchdog + counting allocator + post-error probe over exhaustive hostile strings",
         "Every public Memfs method is called under catch_unwind with every string up to length 3/4 over a 13-symbol hostile alphabet (two-path methods: every pair up to length 2/3) from 3 prepared states, plus long '..' chains, 4 KiB names, random Unicode, extreme modes/ids and handle scripts; after every Err or panic a probe (create/exists/remove, lock not poisoned, C03 walker) must succeed; a watchdog turns a non-returning call into a hang record and a counting allocator unbounded allocation into a blow-up record. All PathExt/sys path helpers, StringExt, IteratorExt and PeekableExt run over the same inputs. Executed in a checked-arithmetic and in a wrapping-arithmetic build.",
         "A hang is decided on CPU time burnt inside one call (20 s) or 90 s without progress and CPU; other stalls are inconclusive.", "5/C12"),
 "C06": ("byte-vector model monitor with re-read of every file after every call",
         "A path -> bytes model is stepped in lock-step with seeded histories of every write/append/line helper, write() and append() handles (also held open across calls on other files), copy and move_p over 4 files with hostile data (empty, multi-byte, invalid UTF-8, embedded newlines, 4 KiB / 64 KiB, unique ids); after every call all files are re-read through read/read_all/read_lines (and std::fs::read on Stdfs) and compared, so leaks between files and aliasing are observed directly. Memfs, Vfs::Memfs and Stdfs.",
         "A held handle is only interleaved with calls on other files; Stdfs half as uid 1000.", "5/C06"),
 "C07": ("lock-step against std::io::Cursor (read side) and flush/drop point observer (write side)",
         "Read side: a read() handle and a std::io::Cursor over the same bytes run every script up to depth 2/3 over reads of 5 buffer sizes, seeks with every offset in -len-1..=len+2 and i64/u64 extremes, stream_position and read_to_end for files of length 0..=5 plus random longer scripts; values, errors and the position after an error must agree, nothing may panic. Write side: every composition of 6 bytes into <= 4 chunks x flush bits x drop after every prefix for write() and append() on absent/empty/non-empty files; an independent read after every flush and after the drop must equal the bytes written so far.",
         "Window between open and first flush of write() not judged; Stdfs offsets < 2^32.", "5/C07"),
 "C09": ("relational before/after snapshot oracle over swept states and all path pairs",
         "For every reference state of the bounded namespace x every ordered pair of paths x Copier options x follow (copy) and x move_p, the complete snapshot before and after the call must satisfy the clauses of the statement (source untouched, every source entry copied with same kind/bytes/target, mode rule for new entries, pre-existing kept, nothing outside the destination changed, no aliasing, move = relocation, failed move = no change). No reference model involved. Memfs exhaustively, Stdfs on C02's domain via the std::fs observer.",
         "Owners not part of the copy relation; placement of followed links under follow not judged; on Stdfs moved relative links / process cwd follow kernel semantics.", "5/C09"),
 "C10": ("law checker over all (link, target) position pairs",
         "For every (link position, target position) pair over 2 names up to depth 4/5, target kind {file, dir, absent, link} and both spellings, a fresh filesystem is prepared, symlink() is called and every law of the statement is checked through the API and the snapshot (readlink_abs, readlink relative + navigation law, link exclusion, kind at creation, entry()/follow swap-once, remove/chmod/chown act on the link only, readlink* fail on non-links); Stdfs additionally through std::fs::read_link.",
         "Stdfs dangling/link targets only for the creation step (C02 domain); Stdfs half runs as root inside its sandbox.", "5/C10"),
 "C11": ("reference grammar evaluator + changed-set oracle",
         "Oracle 1: a reference evaluation of the documented grammar is compared with chmod_b().sym().exec() + mode() for all 945 well-formed single clauses x 64/512 start modes x {file, dir, link}, double clauses, clearly malformed expressions and octal selectors. Oracle 2: for reference states x builder option records (all/dirs/files, sym, recurse, follow; chown uid/gid, recurse, follow) the complete post snapshot must equal the reference's changed set. Memfs exhaustively; Stdfs as root on C02's domain through the disk observer.",
         "Leniently accepted non-grammar strings not generated; malformed later clauses, link-to-link chains and stale link kinds under follow not judged.", "5/C11"),
 "C13": ("transcript-equality monitor (direct backend vs enum wrapper) over deterministic and random histories",
         "The same call sequence (a pass calling every VirtualFileSystem method, then seeded random histories of the C01 alphabet) is executed on Memfs, Vfs::Memfs and Memfs::upcast() instances; each result and the complete hook snapshot after every call must be equal; likewise Stdfs vs Vfs::Stdfs in two sandboxes (results compared modulo the sandbox prefix, trees through std::fs). Every Entry accessor of every VfsEntry obtained is compared with the wrapped entry extracted by pattern match, before and after follow(true/false/true).",
         "Copy calls whose result depends on Memfs's per-instance hash order (failing half way / link kinds) are left out and counted; the Stdfs half runs as uid 1000; set_cwd only on Memfs.", "5/C13"),
 "C20": ("predicate/postcondition oracle around each macro under catch_unwind, over swept states",
         "For every reference state of the C01 sweep, every path (plus '/', an absent, a relative and the empty path) and each of the 19 macros with data/target variants, the macro runs under catch_unwind on Memfs, through Vfs::Memfs and on a Stdfs sandbox materialised with std::fs; checking macros must panic exactly when the documented predicate (evaluated on the reference tree) is false, name themselves and the path, and change nothing; acting macros must pass exactly when the documented postcondition holds on the observed post state. capture_panic is exercised nested and concurrently.",
         "Predicates/postconditions come from each macro's own doc comment incl. documented exemptions; Stdfs cases are restricted to C02's domain.", "5/C20"),
 "C14": ("reference-function monitor over exhaustive + random inputs",
         "sys::clean / PathExt::clean are run on every string over {/,.,a,b} up to length 9 (quick) / 11 (thorough, 5.6 M inputs) and on seeded random strings over a wide alphabet; a monitor compares each result with a byte-level port of Go's path.Clean and checks idempotence, absoluteness and non-emptiness. Exhaustive below the bound, sampled above it.",
         "Trusts the Go port in harness/src/refs.rs (written from the published algorithm, no std::path). UTF-8 inputs only.", "5/C14"),
 "C15": ("executable law monitors over exhaustive + random inputs",
         "Every law of the statement is an executable predicate over plain strings / std::path::Component sequences, evaluated with catch_unwind on every string up to length 5/6 over {/,.,:,a,2-byte,3-byte} (one-argument helpers), every ordered pair up to length 3/4 plus constructed pairs (two-argument helpers), scheme-prefixed variants and random longer strings with 4-byte characters.",
         "Laws on dir/base/first/last are phrased on std::path::Component sequences; UTF-8 inputs only.", "5/C15"),
 "C16": ("navigation-law monitor over exhaustive + random pairs",
         "relative() is run on all 14 641 ordered pairs of clean absolute paths with up to 4 components over 3 names and on seeded random deeper pairs; a monitor checks the shape, the number of '..' and that clean(base/result) == path using the independent Go-clean port.",
         "Inputs are clean absolute paths as the statement requires.", "5/C16"),
 "C17": ("reference-function monitor over child processes with explicit environments",
         "Each of 125 (quick) / 343 (thorough) environments is a separate child process (env_clear + explicit HOME/V1/V2) that evaluates expand() and both backends' abs() on every template of up to 4/5 tokens; the parent compares every line with a string-level reference of the statement.",
         "Undelimited / unclosed variable forms are not judged; values are UTF-8; PathBuf::push re-assembly as pinned by test_pathext_expand.", "5/C17"),
 "C18": ("reference-function monitor over child processes with explicit environments",
         "Each configuration of HOME / XDG_* / PATH / SUDO_* (per-function full cross-products plus random full assignments) and of which candidate directories hold the file is one child process printing every user::* function and vfs.config_dir on Memfs, Vfs::Memfs and a Stdfs sandbox; the parent compares with a reference of the statement.",
         "vfs.config_dir with neither XDG_CONFIG_HOME nor HOME is not judged; path_dirs has no default; numeric = plain unsigned decimal.", "5/C18"),
 "C19": ("plain-definition monitors over exhaustive inputs and executed control-flow shapes",
         "drop/slice/first/.../take_while_p are run on every sequence length 0..=8 with every index pair in -10..=10 and extreme indices, StringExt on every string up to length 4/5 over a casing/multi-byte alphabet, all under catch_unwind against plain Vec/str definitions; defer guards are executed in generated real stack frames (depth <= 3, <= 3 guards per frame, fall-through/return/panic at every position) with an order-and-once log checker.",
         "slice is judged only for left >= -len (statement); order inside one frame relies on Rust's reverse drop order of locals.", "5/C19"),
}
props=[json.loads(l) for l in open('/verif/properties.jsonl')]
checks=[]; na=[]
for p in props:
    i=p['id']
    if i in CLAIMED:
        tech,text,note,ref=CLAIMED[i]
        checks.append({
          "property_id":i,
          "quick_cmd":f"./check {i} quick",
          "thorough_cmd":f"./check {i} thorough",
          "evidence_file":f"/verif/evidence/{i}.json",
          "replay_cmd_template":f"./check {i} --replay {{path}}",
          "engine":"rivia-verif",
          "level_claimed":{"category":"exploration","text":text,"design_ref":"DESIGN.md section "+ref},
          "level_note":note,
          "technique":"runtime monitoring: "+tech})
    else:
        na.append({"property_id":i,"reason":"monitor not built yet in this revision (runtime monitoring applies; see DESIGN.md section 5)"})
m={"version":1,
   "setup_cmd":"./setup.sh",
   "hooks":{"guard":"cargo feature rivia_verif","enable":"harness/Cargo.toml depends on rivia {path=/repo, features=[rivia_verif]}; ./check rebuilds it from /repo's working tree",
            "baseline_off_cmd":"./baseline_off.sh","source_commits":[c.split()[0] for c in hooks_commits],"add_only":True},
   "engines":[{"name":"rivia-verif","path":"/verif/harness","serves_properties":sorted(CLAIMED),"kind_free_text":"Rust harness: workload generators + monitors/oracles observing executions of the real rivia code in worker processes"}],
   "checks":checks,
   "notes":"Every check is runtime monitoring (oracles over executions). Known findings: /verif/known_findings.txt.",
   "not_applicable":na}
json.dump(m,open('/verif/MANIFEST.json','w'),indent=1)
print("claimed",len(checks),"not claimed",len(na))
