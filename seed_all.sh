#!/bin/bash
# re-run every stored seeded change against the quick tier of the check(s) named in its meta.json
cd /verif
for d in seeded/*/; do
  id=$(basename $d)
  checks=$(python3 - "$id" <<'P' 2>/dev/null
import json,sys,re
m=json.load(open(f'/verif/seeded/{sys.argv[1]}/meta.json'))
cs=[]
for k in m['caught_by']:
    mm=re.match(r'(C\d\d) quick',k)
    if mm and mm.group(1) not in cs: cs.append(mm.group(1))
print(' '.join(cs[:1]) if cs else sys.argv[1][:3])
P
)
  if grep -qE '"(obsolete|not_reported)"' /verif/$d/meta.json; then echo "$id: skipped (no longer a break, or recorded as not reported: see meta.json)"; continue; fi
  if ! git -C /repo diff --quiet; then echo "REPO DIRTY - abort"; exit 2; fi
  git -C /repo apply /verif/$d/patch.diff || { echo "$id: PATCH DOES NOT APPLY"; continue; }
  res=""
  for c in $checks; do
    r=$(timeout 1800 ./check $c quick 2>&1 | grep -E "^(VIOLATION|HELD|HARNESS-ERROR [^s])" | head -1 | cut -c1-150)
    res="$res [$c] $r"
  done
  git -C /repo checkout -- .
  echo "$id:$res"
done
