#!/bin/bash
# run checks against /repo with a stored seeded change applied: ./seed_check.sh <seed id> <check ids...>
id=$1; shift; out=/verif/seeded/$id
if ! git -C /repo diff --quiet; then echo "REPO DIRTY - abort"; exit 2; fi
git -C /repo apply $out/patch.diff || { echo "patch does not apply"; exit 2; }
for c in "$@"; do
  for tier in quick thorough; do
    res=$(cd /verif && timeout 3600 ./check $c $tier 2>&1 | grep -E "^(VIOLATION|HELD|HARNESS-ERROR|INCONCLUSIVE)" | head -3 | cut -c1-230)
    echo "[$c $tier] $res"
    if echo "$res" | grep -q VIOLATION; then break; fi
  done
done
git -C /repo checkout -- .
echo "repo restored ($(git -C /repo status --short | wc -l) dirty)"
