#!/usr/bin/env python3
# rewrites the lists of sections 10.3 (fixed) and 10.4 (known) of DESIGN.md from known_findings.txt and /repo's log
import re,subprocess
kf=open('/verif/known_findings.txt').read().splitlines()
fixed={}
for l in kf:
    m=re.match(r'fixed: property=(C\d+) (\w+) (.*)',l)
    if m: fixed.setdefault(m.group(2),[]).append(m.group(1))
log=subprocess.check_output(['git','-C','/repo','log','--reverse','--format=%h %s']).decode().splitlines()
rows=[]
for l in log:
    h,s=l.split(' ',1)
    if not s.startswith('fix:'): continue
    props=sorted(set(fixed.get(h,[])))
    rows.append(f"* `{h}` [{', '.join(props) if props else '?'}] {s[4:].strip()}")
known=[]
for l in kf:
    m=re.match(r'known: property=(C\d+) sig=(.*?) :: (.*)',l)
    if m: known.append(f"* **{m.group(1)}** `{m.group(2)}` - {m.group(3)}")
s=open('/verif/DESIGN.md').read()
a=s.index('### 10.3 Genuine defects found and fixed'); b=s.index('### 10.4 Genuine defects recorded'); c=s.index('### 10.4a ') if '### 10.4a ' in s else s.index('### 10.5 Seeded breaking changes')
head3=s[a:b]; head3=head3[:head3.index('\n* `')+1] if '\n* `' in head3 else head3
head4=s[b:c]; head4=head4[:head4.index('\n* **')+1] if '\n* **' in head4 else head4
s=s[:a]+head3+'\n'.join(rows)+'\n\n'+head4+'\n'.join(known)+'\n\n'+s[c:]
open('/verif/DESIGN.md','w').write(s)
print(len(rows),'fixes',len(known),'known', 'missing fixed lines:',[r for r in rows if '[?]' in r])
