#!/bin/bash
# Runs rivia's pinned suite with the rivia_verif feature OFF and compares with /root/.vp/BASELINE.json
set -u
export CARGO_NET_OFFLINE=true
cd /repo
out=$(mktemp)
cargo nextest run --workspace --no-fail-fast --test-threads 8 --offline >"$out" 2>&1
python3 - "$out" <<'PY'
import json,re,sys
log=open(sys.argv[1]).read()
base=json.load(open('/root/.vp/BASELINE.json'))
passed=set(m.group(1)+'::'+m.group(2) for m in re.finditer(r'^\s+PASS \[[^\]]*\]\s+(?:\([^)]*\)\s+)?(\S+) (\S+)\s*$',log,re.M))
missing=[t for t in base['stable_pass'] if t not in passed]
print("baseline tests:",len(base['stable_pass']),"passed now:",len(base['stable_pass'])-len(missing))
if missing:
    print("NOT PASSING:",missing[:20]); sys.exit(1)
PY
rc=$?
rm -f "$out"
exit $rc
