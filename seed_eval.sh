#!/bin/bash
# ./seed_eval.sh <Cnn> [more check ids...]  : take the change a sub-agent left in /tmp/wt-<Cnn>, confirm it
# (tests still pass, demonstration fails with it and passes without it), store it under /verif/seeded/<Cnn>/ and
# run the given checks (default: the property's own, quick then thorough) against /repo with the change applied.
set -u
id=$1; shift
checks=${*:-$id}
wt=/tmp/wt-$id
out=/verif/seeded/$id
mkdir -p $out
export CARGO_NET_OFFLINE=true
git -C $wt diff -- src > $out/patch.diff
cp $wt/examples/demo_break.rs $out/demo_break.rs 2>/dev/null
echo "== patch: $(wc -l < $out/patch.diff) lines, files: $(git -C $wt diff --stat -- src | tail -1)"
echo "== tests with the change"
(cd $wt && cargo nextest run --offline --no-fail-fast --test-threads 8 2>&1 | grep -E "Summary|FAIL \[" | head -5) | tee $out/.tests.txt
echo "== demo with the change"
(cd $wt && timeout 300 cargo run --offline --example demo_break >/tmp/demo_with.txt 2>&1; echo "exit=$?" >> /tmp/demo_with.txt); tail -3 /tmp/demo_with.txt
echo "== demo without the change"
(cd $wt && git checkout -- src && timeout 300 cargo run --offline --example demo_break >/tmp/demo_without.txt 2>&1; echo "exit=$?" >> /tmp/demo_without.txt; git apply $out/patch.diff); tail -2 /tmp/demo_without.txt
echo "== checks against /repo with the change applied"
if ! git -C /repo diff --quiet; then echo "REPO DIRTY - abort"; exit 2; fi
git -C /repo apply $out/patch.diff || { echo "patch does not apply"; exit 2; }
: > $out/.checks.txt
for c in $checks; do
  for tier in quick thorough; do
    res=$(cd /verif && timeout 3000 ./check $c $tier 2>&1 | grep -E "^(VIOLATION|HELD|HARNESS-ERROR|INCONCLUSIVE)" | head -4 | cut -c1-260)
    echo "[$c $tier] $res" | tee -a $out/.checks.txt
    if echo "$res" | grep -q VIOLATION; then break; fi
  done
done
git -C /repo checkout -- .
echo "== repo restored: $(git -C /repo status --short | wc -l) dirty files"
